"""C10 - saving a crystal and loading it back reproduces the same structure (CIF, SHELX .res, POSCAR).

(M) the LATT/SYMM reduce-expand round trip on every tabulated setting (MC_SpaceGroup, shared with C02) and the
    injectivity of the operation text form (MC_Symop, shared with C11) are the design-level facts the formats rest on.
(T) all 530 settings: real crystals written and re-read through the string functions and save()/load() on real files,
    built in memory or themselves loaded from a file; the .res text content is checked against the SHELX semantics
    written in SpaceGroup.tla; the reloaded crystal is compared with the original by TLC (Trace_CrystalFile).
"""
import math
import os
from fractions import Fraction

from harness.common import main, pool_map, VERIF
from harness import tlc, xtal
from harness.c02 import table_rows, export_table, MC_CFG as SG_MC_CFG
from harness.c13 import gram_of
from harness.project import to_grid


def cell_ints(cr):
    import numpy as np
    vals = list(cr.unit_cell.lengths) + list(np.degrees(cr.unit_cell.angles))
    return [int(round(float(v) * 1e6)) for v in vals]


def sites_of(cr, n):
    import numpy as np
    off = False
    out = []
    au = cr.asymmetric_unit
    occ = au.properties.get("occupation", [1.0] * len(au))
    for i in range(len(au)):
        p = []
        for x in np.asarray(au.positions[i], dtype=float):
            k, o = to_grid(float(x), n, 1e-8)
            p.append(k)
            off |= o
        oc, o = to_grid(float(occ[i]), 12, 1e-8)
        off |= o
        out.append({"z": int(au.atomic_numbers[i]), "label": str(au.labels[i]), "p": p, "occ": oc})
    return out, off


# the reserved instruction names of SHELXL: a line that starts with one of them is an instruction, any other line an atom
SHELX_INSTRUCTIONS = set("""ABIN ACTA AFIX ANIS ANSC ANSR BASF BIND BLOC BOND BUMP CELL CGLS CHIV CONF CONN DAMP DANG DEFS DELU DFIX DISP
EADP END EQIV EXTI EXYZ FEND FLAT FMAP FRAG FREE FVAR GRID HFIX HKLF HTAB ISOR LATT LAUE LIST L.S. MERG MORE MOVE MPLA NCSY NEUT OMIT
PART PLAN PRIG REM RESI RIGU RTAB SADI SAME SFAC SHEL SIMU SIZE SPEC STIR SUMP SWAT SYMM TEMP TITL TWIN TWST UNIT WGHT WIGL WPDB
XNPD ZERR""".split())


def parse_res_text(text, n):
    """Tokenise the .res text the library wrote. Numbers are read exactly from their decimal spelling; each SYMM text is
    shipped as bytes and read by the specification's own reader (SymopText!ParseTextB)."""
    x = {"exc": "", "latt": 0, "symm": [], "cell": [0] * 6, "celloff": False, "sfac": [], "atoms": [], "atomsoff": False}
    try:
        for line in text.split("\n"):
            s = line.strip()
            if not s:
                continue
            key = s[:4].upper()
            toks = s.split()
            if key == "TITL":
                continue
            if key == "CELL":
                nums = [Fraction(t) * 10 ** 6 for t in toks[2:8]]
                # a writer may keep more than six decimals: the value is taken to the nearest 1e-6 (TLC allows one unit)
                x["celloff"] = len(nums) != 6
                x["cell"] = [int(round(v)) for v in nums]
            elif key == "LATT":
                x["latt"] = int(toks[1])
            elif key == "SYMM":
                t = s[4:].strip()
                x["symm"].append({"text": t, "bytes": [ord(ch) if ord(ch) < 256 else 63 for ch in t]})
            elif key == "SFAC":
                x["sfac"] = toks[1:]
            elif key == "END" or toks[0].upper() == "END":
                break
            elif toks[0].upper() in SHELX_INSTRUCTIONS:
                continue                       # REM, HKLF, UNIT, ZERR ...: instructions that say nothing about the structure
            else:
                p = []
                for tk in toks[2:5]:
                    v = Fraction(tk) * n
                    k = round(v)
                    if abs(v - k) > Fraction(n, 10 ** 9):
                        x["atomsoff"] = True
                    p.append(int(k))
                x["atoms"].append({"label": toks[0], "sfac": int(toks[1]), "p": p})
    except Exception as e:
        x["exc"] = type(e).__name__
    return x


def drive_gen(rec):
    """A .gen file of kind F or S composed for a cell and atoms on the grid, read back (extension, GenFile.tla)."""
    import numpy as np
    from chmpy.crystal import Crystal
    from chmpy.core.element import Element
    n, u, gram = rec["n"], rec["u"], rec["gram"]
    t = {"kind": rec["gkind"], "n": n, "gram": gram, "listed": [{"z": a["z"], "p": a["p"]} for a in rec["atoms"]], "exc": "", "off": False,
         "loaded": {"number": 0, "nops": 0, "gram": [[0] * 3] * 3, "atoms": []},
         "meta": {"recipe": rec, "source": "composed-gen-file", "nontrivial": True,
                  "impl_call": "Crystal.%s(<.gen text of kind %s, %d atoms>)" % ("load" if rec["via"] == "file" else "from_gen_string", rec["gkind"], len(rec["atoms"]))}}
    try:
        lengths, angles = xtal.cell_params(gram, u)
        from chmpy.crystal import UnitCell
        L = np.asarray(UnitCell.from_lengths_and_angles(lengths, angles).direct, dtype=float)
        if rec.get("rot") is not None:
            L = L @ np.array(rec["rot"], dtype=float).T
        species = []
        for a in rec["atoms"]:
            if a["z"] not in species:
                species.append(a["z"])
        lines = ["%d %s" % (len(rec["atoms"]), rec["gkind"]), " ".join(Element.from_atomic_number(z).symbol for z in species)]
        for k, a in enumerate(rec["atoms"]):
            f = np.array(a["p"], dtype=float) / n
            v = f if rec["gkind"] == "F" else f @ L
            lines.append("%d %d %.14f %.14f %.14f" % (k + 1, species.index(a["z"]) + 1, v[0], v[1], v[2]))
        lines.append("0.0 0.0 0.0")
        lines += ["%.14f %.14f %.14f" % tuple(row) for row in L]
        text = "\n".join(lines) + "\n"
        if rec["via"] == "file":
            import tempfile, shutil
            d = tempfile.mkdtemp(prefix="c10gen-", dir=os.path.join(VERIF, "out"))
            try:
                path = os.path.join(d, "cell.gen")
                with open(path, "w") as fh:
                    fh.write(text)
                cr = Crystal.load(path)
            finally:
                shutil.rmtree(d, ignore_errors=True)
        else:
            cr = Crystal.from_gen_string(text)
        D = np.asarray(cr.unit_cell.direct, dtype=float)
        g = D @ D.T / (u * u)
        off = bool(np.max(np.abs(g - np.rint(g))) > 1e-6 * max(1.0, float(np.max(np.abs(g)))))
        atoms = []
        for z, fr in zip(cr.asymmetric_unit.atomic_numbers, np.asarray(cr.asymmetric_unit.positions, dtype=float)):
            p = []
            for x in fr:
                k, o = to_grid(float(x), n, 1e-6)
                p.append(k)
                off |= o
            atoms.append({"z": int(z), "p": p})
        t["loaded"] = {"number": int(cr.space_group.international_tables_number), "nops": len(cr.space_group.symmetry_operations),
                       "gram": [[int(round(x)) for x in row] for row in g], "atoms": atoms}
        t["off"] = bool(off)
    except Exception as e:
        t["exc"] = type(e).__name__
    return t


def _fixed(v, scale, ndec, width):
    a = abs(v)
    return (("-" if v < 0 else "") + "%d.%0*d" % (a // scale, ndec, a % scale)).rjust(width)


def drive_pdb(rec):
    """A PDB file proposed for a cell and atoms given as integers (TLC certifies the text), read with Crystal.from_pdb_file."""
    import numpy as np
    import tempfile
    import shutil
    import io
    import contextlib
    from chmpy.crystal import Crystal
    cell, atoms = rec["cell"], rec["atoms"]
    lines = ["CRYST1" + "".join(_fixed(x, 1000, 3, 9) for x in cell["len"]) + "".join(_fixed(x, 100, 2, 7) for x in cell["ang"])
             + " " + cell["sg"].ljust(11) + ("" if cell["z"] == 0 else str(cell["z"]).rjust(4))]
    for a in atoms:
        lines.append(("HETATM" if a["het"] else "ATOM  ") + str(a["serial"]).rjust(5) + " " + a["name"].ljust(4) + " " + a["res"].ljust(3)
                     + " A" + str(a["seq"]).rjust(4) + " " + "   " + _fixed(a["x"], 1000, 3, 8) + _fixed(a["y"], 1000, 3, 8) + _fixed(a["z"], 1000, 3, 8)
                     + _fixed(a["occ"], 100, 2, 6) + _fixed(a["b"], 100, 2, 6) + " " * 10 + xtal.SYMBOLS[a["zel"]].upper().rjust(2))
    lines.append("END")
    enc = lambda s_: [ord(c) for c in s_]  # noqa: E731
    t = {"cell": {"len": cell["len"], "ang": cell["ang"], "sg": enc(cell["sg"]), "z": cell["z"]},
         "atoms": [dict(a, name=enc(a["name"]), res=enc(a["res"])) for a in atoms], "lines": [enc(l) for l in lines], "exc": "", "off": False,
         "loaded": {"len": [0, 0, 0], "ang": [0, 0, 0], "atoms": []},
         "meta": {"recipe": rec, "source": "spec-written-pdb", "nontrivial": True,
                  "impl_call": "Crystal.from_pdb_file(<CRYST1 + %d ATOM/HETATM records>)" % len(atoms)}}
    d = tempfile.mkdtemp(prefix="c10pdb-", dir=os.path.join(VERIF, "out"))
    try:
        path = os.path.join(d, "cell.pdb")
        with open(path, "w") as fh:
            fh.write("\n".join(lines) + "\n")
        with contextlib.redirect_stdout(io.StringIO()):          # the reader prints what it found
            cr = Crystal.load(path) if rec["via"] == "load" else Crystal.from_pdb_file(path)
        uc = cr.unit_cell
        ln = [uc.a * 1000.0, uc.b * 1000.0, uc.c * 1000.0]
        an = [uc.alpha_deg * 100.0, uc.beta_deg * 100.0, uc.gamma_deg * 100.0]
        cart = np.asarray(cr.to_cartesian(np.asarray(cr.asymmetric_unit.positions, dtype=float)), dtype=float) * 1000.0
        off = any(abs(x - round(x)) > 1e-6 for x in ln + an) or bool(np.any(np.abs(cart - np.rint(cart)) > 1e-5))
        t["loaded"] = {"len": [int(round(x)) for x in ln], "ang": [int(round(x)) for x in an],
                       "atoms": [{"zel": int(z), "name": enc(str(lab)), "x": int(round(c[0])), "y": int(round(c[1])), "z": int(round(c[2]))}
                                 for z, lab, c in zip(cr.asymmetric_unit.atomic_numbers, cr.asymmetric_unit.labels, cart)]}
        t["off"] = bool(off)
    except Exception as e:
        t["exc"] = type(e).__name__
    finally:
        shutil.rmtree(d, ignore_errors=True)
    return t


def pdb_recipes(rng, count):
    out = []
    sgs = ["P 1", "P -1", "P 1 21 1", "P 21 21 21", "C 1 2 1", "P 1 21/c 1"]
    for _ in range(count):
        fam = rng.choice(["tric", "mono", "ortho"])
        ang = {"tric": [rng.randint(7000, 11000) for _ in range(3)], "mono": [9000, rng.randint(9100, 12500), 9000], "ortho": [9000] * 3}[fam]
        cell = {"len": [rng.randint(3000, 99999) for _ in range(3)], "ang": ang, "z": rng.choice([0, 1, 2, 4, 8, 12]),
                "sg": {"tric": rng.choice(sgs[:2]), "mono": rng.choice(sgs[2:3] + sgs[4:]), "ortho": sgs[3]}[fam]}
        atoms = []
        for k in range(rng.randint(1, 8)):
            zel = rng.choice([1, 6, 7, 8, 15, 16, 17, 26, 53, 35])
            sym = xtal.SYMBOLS[zel].upper()
            name = (" " + sym + str(k + 1))[:4] if len(sym) == 1 and rng.random() < 0.7 else (sym + str(k + 1))[:4]
            atoms.append({"het": rng.random() < 0.3, "serial": k + 1, "name": name.strip() if rng.random() < 0.5 else name.rstrip(), "res": rng.choice(["ALA", "HOH", "LIG", "CL"]),
                          "seq": rng.randint(1, 999), "x": rng.randint(-99999, 999999), "y": rng.randint(-9999, 99999), "z": rng.randint(-9999, 99999),
                          "occ": rng.choice([100, 100, 50, 37]), "b": rng.randint(0, 9999), "zel": zel})
        for a in atoms:
            a["name"] = a["name"].strip()
        out.append({"cell": cell, "atoms": atoms, "via": rng.choice(["load", "from_pdb_file"])})
    return out


def gen_recipes(rng, count):
    out = []
    for _ in range(count):
        n = rng.choice([12, 24, 48])
        gram = xtal.sym_gram([16484], rng, oblique=rng.random() < 0.6, maxentry=400)
        na = rng.randint(1, 6)
        pts = set()
        while len(pts) < na:
            pts.add(tuple(rng.randint(-n // 2, n + n // 2) for _ in range(3)))
        vol = max(na * rng.uniform(12.0, 30.0), 40.0)
        out.append({"n": n, "gram": gram, "u": (vol / math.sqrt(xtal.det3(gram))) ** (1 / 3.0), "gkind": rng.choice(["F", "S", "S"]),
                    "atoms": [{"z": rng.choice([1, 6, 7, 8, 14, 26]), "p": list(p)} for p in sorted(pts, key=lambda q: rng.random())],
                    "via": rng.choice(["string", "file"]), "rot": None})
    return out


def drive(rec):
    import numpy as np
    from chmpy.crystal import Crystal
    xtal.other_structures_loaded_earlier()        # the process has read, used and exported other structures before
    fmt, via, prov = rec["fmt"], rec["via"], rec["provenance"]
    n, u = rec["n"], rec["u"]
    asym = [{"z": s["z"], "sym": xtal.SYMBOLS[s["z"]], "label": s["label"], "p": [x % n for x in s["p"]] if False else s["p"],
             "occ": s["occ"]} for s in rec["asym"]]
    t = {"fmt": fmt, "via": via, "provenance": prov, "n": n, "gram": rec["gram"], "number": rec["number"], "ops": [],
         "cell": [0] * 6, "asym": asym, "write_exc": "",
         "text": {"exc": "", "latt": 0, "symm": [], "cell": [0] * 6, "celloff": False, "sfac": [], "atoms": [], "atomsoff": False},
         "re": {"exc": "", "off": False, "number": 0, "ops": [], "cell": [0] * 6, "sites": [], "gram": [[0] * 3] * 3, "gramoff": False},
         "meta": {"recipe": rec, "source": "random", "nontrivial": True,
                  "impl_call": "Crystal(%d %r) %s via %s (%s)" % (rec["number"], rec["choice"], fmt, via, prov)}}
    cr = xtal.build_crystal(rec)
    d = tlc.scratch_dir("c10-%d" % os.getpid())
    try:
        try:
            if prov == "loaded-cif":
                cr = Crystal.from_cif_string(cr.to_cif_string())
            elif prov == "loaded-res":
                cr = Crystal.from_shelx_string(cr.to_shelx_string())
            elif prov == "loaded-rich-cif":
                # a CIF as refinement programs write it: besides the atom_site loop there are shorter loops whose names
                # start with the same word (atom_type_*, atom_site_aniso_* without the first site) and extra scalars
                # (the file is composed here, not by the library's writer)
                au = cr.asymmetric_unit
                labels = [str(x) for x in au.labels]
                syms = [e.symbol for e in au.elements]
                occ = au.properties.get("occupation", [1.0] * len(au))
                L = ["data_rich", "_chemical_name_common 'test compound'", "_cell_measurement_temperature 293",
                     "_cell_length_a %.12f" % cr.unit_cell.a, "_cell_length_b %.12f" % cr.unit_cell.b,
                     "_cell_length_c %.12f" % cr.unit_cell.c, "_cell_angle_alpha %.12f" % cr.unit_cell.alpha_deg,
                     "_cell_angle_beta %.12f" % cr.unit_cell.beta_deg, "_cell_angle_gamma %.12f" % cr.unit_cell.gamma_deg,
                     "loop_", "_symmetry_equiv_pos_site_id", "_symmetry_equiv_pos_as_xyz"]
                # operations in the spellings other programs use (any term order, negative fractions such as z-1/4, decimals,
                # upper case: the grammar of C11, harness/c11.py propose_spelling), coordinates as SHELXL-era files write them
                # (no leading zero, a standard uncertainty in parentheses)
                import random as _random
                from harness.c11 import propose_spelling, rand_style
                srng = _random.Random(len(labels) * 7919 + rec["number"])

                def spell_op(op):
                    code = int(op.integer_code)
                    if srng.random() < 0.5:
                        return "'%s'" % propose_spelling(code, [rand_style(srng) for _ in range(3)], srng.choice([",", ", "]))
                    return str(op)

                def spell_num(x):
                    s_ = "%.12f" % x
                    if srng.random() < 0.5 and abs(x) < 1:
                        s_ = s_.replace("0.", ".", 1)
                    if srng.random() < 0.3:
                        s_ += "(%d)" % srng.randint(1, 9)
                    return s_
                cr0 = cr
                L += ["%d %s" % (k + 1, spell_op(op)) for k, op in enumerate(cr.space_group.symmetry_operations)]
                L += ["loop_", "_atom_type_symbol", "_atom_type_description"] + ["%s %sdesc" % (x, x) for x in sorted(set(syms))]
                L += ["loop_", "_atom_site_label", "_atom_site_type_symbol", "_atom_site_fract_x", "_atom_site_fract_y",
                      "_atom_site_fract_z", "_atom_site_occupancy"]
                L += ["%s %s %s %s %s %.12f" % (labels[k], syms[k], spell_num(au.positions[k][0] - (1 if k % 2 else 0)),
                                                spell_num(au.positions[k][1]), spell_num(au.positions[k][2]), float(occ[k]))
                      for k in range(len(au))]
                if len(labels) > 1:
                    L += ["loop_", "_atom_site_aniso_label", "_atom_site_aniso_U_11"]
                    L += ["%s %.4f" % (labels[k], 0.01 * (k + 1)) for k in range(1, len(labels))]
                cr = Crystal.from_cif_string("\n".join(L) + "\n")
                # what was loaded is what the file says (the crystal the file was composed from)
                import numpy as np
                ops_same = (sorted(int(s.integer_code) for s in cr.space_group.symmetry_operations) ==
                            sorted(int(s.integer_code) for s in cr0.space_group.symmetry_operations))
                num_same = int(cr.space_group.international_tables_number) == int(cr0.space_group.international_tables_number)
                pos = np.asarray(cr.asymmetric_unit.positions)
                pos_same = pos.dtype.kind == "f" and pos.shape == np.asarray(cr0.asymmetric_unit.positions).shape
                if pos_same:
                    d_ = pos.astype(float) - np.asarray(cr0.asymmetric_unit.positions, dtype=float)
                    pos_same = bool(np.max(np.abs(d_ - np.round(d_))) < 1e-9)
                if not (ops_same and num_same and pos_same):
                    raise ValueError("LoadedDiffersFromFile")
            if (rec["number"] + len(rec["asym"]) + n) % 3 == 0:
                # side check, the crystal itself is kept: a POSCAR as other programs write it (composed here from the crystal's unit cell): the species line names an
                # element again whenever the atom list comes back to it (C O C H O with counts 2 2 1 3 1), Cartesian or direct
                import numpy as np
                uc = cr.unit_cell_atoms()
                els = [int(z) for z in uc["element"]]
                frac = np.asarray(uc["frac_pos"], dtype=float)
                order = list(range(len(els)))
                import random as _random
                prng = _random.Random(len(els) * 31 + rec["number"])
                prng.shuffle(order)
                runs = []
                for i_ in order:
                    if runs and runs[-1][0] == els[i_] and prng.random() < 0.6:
                        runs[-1][1].append(i_)
                    else:
                        runs.append([els[i_], [i_]])
                from chmpy.core.element import Element as _El
                D = np.asarray(cr.unit_cell.direct, dtype=float)
                cart = prng.random() < 0.4
                L = ["composed", "1.0"] + ["%.14f %.14f %.14f" % tuple(row) for row in D]
                L += [" ".join(_El.from_atomic_number(z_).symbol for z_, _ in runs), " ".join(str(len(ix)) for _, ix in runs),
                      "Cartesian" if cart else "Direct"]
                listed = [i_ for _, ix in runs for i_ in ix]
                for i_ in listed:
                    v_ = frac[i_] @ D if cart else frac[i_]
                    L.append("%.14f %.14f %.14f" % tuple(v_))
                crp = Crystal.from_vasp_string("\n".join(L) + "\n")
                got_z = [int(z_) for z_ in crp.asymmetric_unit.atomic_numbers]
                gp = np.asarray(crp.asymmetric_unit.positions, dtype=float)
                ok_ = (got_z == [els[i_] for i_ in listed] and gp.shape == (len(listed), 3)
                       and int(crp.space_group.international_tables_number) == 1 and len(crp.space_group.symmetry_operations) == 1)
                if ok_:
                    d_ = gp - frac[listed]
                    ok_ = bool(np.max(np.abs(d_ - np.round(d_))) < 1e-7) and bool(np.max(np.abs(np.asarray(crp.unit_cell.direct) - D)) < 1e-9)
                if not ok_:
                    raise ValueError("LoadedDiffersFromFile")
        except Exception as e:      # the first leg of the chain is itself a save + load: its failure is an observation
            t["write_exc"] = "provenance-" + prov + ":" + type(e).__name__
            return t
        t["ops"] = [int(s.integer_code) for s in cr.space_group.symmetry_operations]
        t["cell"] = cell_ints(cr)
        # the crystal being written is the reference: project *it* (a loaded crystal may legitimately differ from the
        # recipe, e.g. a .res file carries no occupancies)
        ref, refoff = sites_of(cr, n)
        t["asym"] = [{"z": r["z"], "sym": xtal.SYMBOLS.get(r["z"], "?"), "label": r["label"], "p": r["p"], "occ": r["occ"]} for r in ref]
        t["number"] = int(cr.space_group.international_tables_number)
        if refoff:
            t["write_exc"] = "ReferenceOffGrid"
            return t
        name = {"cif": "x.cif", "res": "x.res", "poscar": "POSCAR"}[fmt]
        if rec.get("fname"):
            name = rec["fname"]                    # the extension decides the format, whatever the rest of the name says
        path = os.path.join(d, name)
        if rec.get("titl") is not None:
            cr.properties["titl"] = rec["titl"]          # the title line of the files (may be empty)
        if rec.get("written_before"):
            # the object has already been exported (in every format) before the writing that is judged
            for w in (cr.to_poscar_string, cr.to_cif_string, cr.to_shelx_string, cr.to_poscar_string):
                try:
                    w()
                except Exception:
                    pass
        try:
            if via == "file":
                cr.save(path)
                text = open(path).read()
            else:
                text = {"cif": cr.to_cif_string, "res": cr.to_shelx_string, "poscar": cr.to_poscar_string}[fmt]()
        except Exception as e:
            t["write_exc"] = type(e).__name__
            return t
        if fmt == "res":
            t["text"] = parse_res_text(text, n)
        try:
            if via == "file":
                new = Crystal.load(path)
            else:
                new = {"cif": Crystal.from_cif_string, "res": Crystal.from_shelx_string, "poscar": Crystal.from_vasp_string}[fmt](text)
            if isinstance(new, dict):
                raise ValueError("several data blocks")
            sites, off = sites_of(new, n)
            g, goff = gram_of(new, u)
            t["re"].update(number=int(new.space_group.international_tables_number),
                           ops=[int(s.integer_code) for s in new.space_group.symmetry_operations], cell=cell_ints(new),
                           sites=sites, off=bool(off), gram=g, gramoff=bool(goff))
        except Exception as e:
            t["re"]["exc"] = type(e).__name__
    finally:
        tlc.cleanup(d)
    return t


def gen(args):
    import random
    row, seed, fmt, via, prov = args[:5]
    force_near_right = len(args) > 5 and args[5]
    rng = random.Random(seed)
    n = rng.choice([12, 24, 48])
    general_only = fmt == "poscar"
    asym = xtal.gen_asym(rng, row["ops"], n, rng.randint(1, 4 if len(row["ops"]) <= 48 else 2), want_special=not general_only,
                         occ_choices=(12,) if fmt != "cif" else (12, 12, 6, 4, 3))
    if not asym:
        return {"__none__": True, "meta": {}}
    # sites inside the reference cell (files store them as given; wrapping is not part of the statement)
    for s in asym:
        s["p"] = [x % n for x in s["p"]]
    # label variants: element symbol + digits + optional suffix
    for i, s in enumerate(asym):
        s["label"] = "%s%d%s" % (xtal.SYMBOLS[s["z"]], rng.randint(1, 99), rng.choice(["", "", "A", "B", "a"]))
    if rng.random() < 0.25:
        # atom names in the style of protein / porphyrin structures: the letters after the first are a position code, not
        # part of an element symbol (CA is a carbon, HG1 a hydrogen, NA a nitrogen)
        stems = {1: ["HA", "HB", "HG", "HE", "HO", "HN", "HD", "HF"], 6: ["CA", "CB", "CD", "CE", "CG", "CZ", "CO"],
                 7: ["NA", "NB", "NE", "NZ", "ND"], 8: ["OG", "OH", "OW", "OE", "OD", "OS"], 9: ["FA", "FB"],
                 15: ["PA", "PB", "PG"], 16: ["SG", "SD", "SB"], 17: ["CL"], 26: ["FE"], 35: ["BR"]}
        for i, s in enumerate(asym):
            s["label"] = "%s%d" % (rng.choice(stems[s["z"]]), i + 1)
    if len({s["label"] for s in asym}) != len(asym):
        for i, s in enumerate(asym):
            s["label"] = "%s%d" % (xtal.SYMBOLS[s["z"]], i + 1)
    gram = xtal.oblique_gram(rng) if (row["number"] <= 2 and rng.random() < 0.5) else xtal.sym_gram(row["ops"], rng)
    near_right = False
    if row["number"] <= 2 and (force_near_right or rng.random() < 0.3):
        # an angle a few hundredths of a degree away from 90 (cos = 1/1500 .. 1/3000): still not a right angle
        d = [rng.randint(1200, 3000) for _ in range(3)]
        gram = [[d[0], rng.choice([-1, 1]), 0], [0, d[1], rng.choice([-1, 0, 1])], [0, 0, d[2]]]
        gram[1][0], gram[2][1], gram[2][0] = gram[0][1], gram[1][2], gram[0][2]
        near_right = True
    vol = max(len(row["ops"]) * len(asym) * 15.0, 80.0)
    u = (vol / math.sqrt(xtal.det3(gram))) ** (1 / 3.0)
    if rng.random() < 0.2:
        # large cells: the longest edge between 25 and 99 Angstrom (fixed-width number fields get full)
        u = rng.uniform(25.0, 99.0) / math.sqrt(max(gram[i][i] for i in range(3)))
    if rng.random() < 0.15:
        # an edge a hair away from a whole number of Angstrom (12.00008): still a different cell at the written precision
        i = rng.randrange(3)
        li = math.sqrt(gram[i][i]) * u
        u = (max(3.0, round(li)) + rng.choice([-1, 1]) * rng.choice([3e-6, 2e-5, 8e-5])) / math.sqrt(gram[i][i])
    rec = {"number": row["number"], "choice": row["choice"], "n": n, "gram": gram, "u": u, "asym": asym, "fmt": fmt, "via": via,
           "provenance": prov, "route": "vectors" if near_right else rng.choice(["params", "vectors"]),
           "fname": (rng.choice([None, None, "POSCAR.cif", "CONTCAR.cif", "my.POSCAR.cif", "a b.cif", "X.CIF"]) if fmt == "cif" else
                     rng.choice([None, None, "POSCAR.res", "run.1.res", "X.RES"]) if fmt == "res" else rng.choice([None, "CONTCAR"])),
           "written_before": rng.random() < 0.4, "titl": rng.choice([None, None, None, "", " ", "phase II, 100 K", "x"])}
    if fmt == "poscar" and rng.random() < 0.4:
        # a POSCAR stores lattice vectors: the crystal may hold them in any orientation
        from harness.c13 import rand_rotation
        rec["route"], rec["rot"] = "vectors", rand_rotation(rng)
    return rec


def run(ctx):
    rows = table_rows()
    d = tlc.scratch_dir("c10")
    try:
        sgfile = os.path.join(d, "sg.json")
        export_table(sgfile)
        ctx.model_check("mc/MC_SpaceGroup.tla", SG_MC_CFG % "origin", name="MC_SpaceGroup(table): LATT/SYMM round trip",
                        data_driven=True, env={"SG_FILE": sgfile}, timeout=600)
    finally:
        tlc.cleanup(d)
    rng = ctx.rng
    jobs = []
    reps = ctx.pick(1, 16)
    for i, r in enumerate(rows):
        for k in range(reps):
            for fmt in ("cif", "res", "poscar"):
                if fmt == "poscar" and len(r["ops"]) > 96 and k > 0:
                    continue
                via = rng.choice(["string", "file"])
                prov = rng.choice(["memory", "memory", "loaded-cif", "loaded-res", "loaded-rich-cif"])
                jobs.append((r, ctx.seed * 15485863 + i * 101 + k * 7 + len(fmt), fmt, via, prov))
    tri = [r for r in rows if r["number"] <= 2]
    for j in range(ctx.pick(24, 400)):
        jobs.append((tri[j % 2], ctx.seed * 7919 + 50000 + j, ("res", "cif", "poscar")[j % 3], rng.choice(["string", "file"]),
                     rng.choice(["memory", "loaded-cif", "loaded-res"]), True))
    recs = [x for x in pool_map(gen, jobs) if "__none__" not in x]
    traces = pool_map(drive, recs)
    ctx.validate("trace/Trace_CrystalFile.tla", traces, batch=2500, timeout=2400)
    # beyond the listed property: .gen files as a source of crystals (GenFile.tla)
    import random as _random
    gtraces = pool_map(drive_gen, gen_recipes(_random.Random(ctx.seed * 131 + 10), ctx.pick(120, 1500)))
    ctx.validate("trace/Trace_GenFile.tla", gtraces, name="Trace_GenFile (extension)", extension=True, timeout=600)
    # ... and PDB files (PdbFile.tla: the specification writes the records in the fixed columns of the format)
    ptraces = pool_map(drive_pdb, pdb_recipes(_random.Random(ctx.seed * 137 + 10), ctx.pick(100, 1200)))
    ctx.validate("trace/Trace_PdbFile.tla", ptraces, name="Trace_PdbFile (extension)", extension=True, timeout=600)
    ctx.exhaustive = False
    ctx.rule = ("every one of the %d tabulated settings x %d seeded crystals x {CIF, SHELX .res, POSCAR}: 1-4 sites (general and special "
                "positions, labels El<digits><suffix>, partial occupancies for CIF) on grids N in {12,24,48}, cells from a symmetrised "
                "integer Gram matrix, written and re-read through the string functions or save()/load() on files, the crystal built in memory "
                "or itself loaded from CIF / .res / a CIF carrying further loops (atom_type_*, atom_site_aniso_*) and scalars; every trace is non-trivial" % (len(rows), reps))
    ctx.explanation = "settings enumerated completely for all three formats; cells, sites, routes and provenance sampled"
    ctx.assumptions = ["cell parameters compared at 1e-6 (2e-6 for .res, which rounds to 6 decimals); coordinates projected to the grid "
                       "with residual <= 1e-8; the .res dialect written by chmpy has no occupancy column, so occupancy is demanded for CIF only",
                       "each SYMM text is read from its bytes by the specification's own reader (SymopText.tla)"]


def replay(ctx, rec):
    ctx.validate("trace/Trace_CrystalFile.tla", [drive(rec["record"]["meta"]["recipe"])])


if __name__ == "__main__":
    raise SystemExit(main("C10", run, replay))
