"""C20 - quasi-random sequences are deterministic, in the unit cube, evenly stratified.

(M) MC_QuasiRandom: the Gray-code Sobol generator of specs/QuasiRandom.tla run by TLC on the
    direction-number table exported from the current tree (_sobol_parameters.npz), one behaviour
    per dimension, Stratified(m) for every coordinate and Net2(m) for coordinates (1,2), m <= MaxM.
    Data-driven: a violated invariant is a property violation.
(G) MC_QuasiRandom/SessionSpec: TLC enumerates every ordered pair of calls over a small call
    alphabet (all routes, both methods); the harness replays each pair through the real API.
(T) sessions of real calls (single / batch / front end, seeded windows [s, s+k], s <= 10^6,
    k <= 256, Sobol to 1000 dimensions, Korobov to 64) -> Trace_QuasiRandom: Sobol values must be
    the spec generator's X for that index, every coordinate in [0,1), and every observation of
    the same (method, seed, dimension) by any route, in any order, must coincide.
"""
import json
import math
import os
import random

import numpy as np

from harness.common import REPO, main, pool_map
from harness import tlc

BITS = 20                      # Sobol coordinates of indices < 2^20 are multiples of 2^-20
KGF = 1 << 30

MC_CFG = """SPECIFICATION Spec
CHECK_DEADLOCK FALSE
CONSTANTS
  Bits = %d
  MaxM = %d
  NBlocks = 64
  SessionLen = 0
INVARIANT TableWellFormed
INVARIANT WholeTableWellFormed
INVARIANT HistoryIsSequence
INVARIANT UnitCube
INVARIANT ClosedForm
INVARIANT StratifiedAll
INVARIANT NetFirstTwo
"""

SESSION_CFG = """SPECIFICATION SessionSpec
CHECK_DEADLOCK FALSE
CONSTANTS
  Bits = %d
  MaxM = 3
  NBlocks = 1
  SessionLen = %d
INVARIANT SessionRegisterConsistent
INVARIANT SessionFrontIsDispatch
"""


# ------------------------------------------------------------------ table export (never cached)
def table_rows(dims):
    """Rows of sampling/_sobol_parameters.npz of the current tree for the given 1-based
    dimensions, read with numpy directly: poly[d] = (a, m_1, ..., m_s, 0, ...) for d >= 2;
    dimension 1 has no row (all m_i = 1) and is exported with m = []."""
    poly = np.load(os.path.join(REPO, "src/chmpy/sampling/_sobol_parameters.npz"))["poly"]
    rows = []
    for d in dims:
        if d == 1:
            rows.append({"d": 1, "a": 0, "m": []})
            continue
        r = poly[d]
        m = []
        for v in r[1:]:
            if int(v) == 0:
                break
            m.append(int(v))
        rows.append({"d": int(d), "a": int(r[0]), "m": m})
    return rows


# ------------------------------------------------------------------ projection
def project_sobol(arr):
    """float64 coordinates -> integers x * 2^BITS; any non-zero residual (or non-finite value)
    is reported as offgrid and decided by TLC (clause OnGrid)."""
    a = np.asarray(arr, dtype=np.float64)
    a2 = a.reshape(1, -1) if a.ndim == 1 else a
    fin = np.isfinite(a2)
    y = np.ldexp(np.where(fin, a2, 0.0), BITS)
    r = np.rint(y)
    off = bool((~fin).any() or (r != y).any())
    r = np.clip(r, -2.0 ** 30, 2.0 ** 30)
    return [[int(v) for v in row] for row in r], off


def project_kgf(arr):
    """float64 -> (floor(x*2^30), next 30 bits); both exact (power-of-two scalings)."""
    a = np.asarray(arr, dtype=np.float64)
    a2 = a.reshape(1, -1) if a.ndim == 1 else a
    fin = np.isfinite(a2)
    y = np.ldexp(np.clip(np.where(fin, a2, -1.0), -1.0, 1.99), 30)
    hi = np.floor(y)
    lo = np.floor(np.ldexp(y - hi, 30))
    return ([[int(v) for v in row] for row in hi], [[int(v) for v in row] for row in lo],
            bool((~fin).any()))


# ------------------------------------------------------------------ driving the real code
def _do_call(call):
    import chmpy.sampling as S
    route, method, a, b, c = call
    if route == "single":
        fn = S.quasirandom_sobol if method == "sobol" else S.quasirandom_kgf
        return fn(a, b), "quasirandom_%s(%d, %d)" % (method, a, b)
    if route == "batch":
        fn = S.quasirandom_sobol_batch if method == "sobol" else S.quasirandom_kgf_batch
        return fn(a, b, c), "quasirandom_%s_batch(%d, %d, %d)" % (method, a, b, c)
    if route == "front":
        d2 = None if b == 0 else b
        if c == 1 and (a + (b or 0)) % 2 == 0:
            # the documented default seed is 1: leaving the argument out is the same call
            return (S.quasirandom(a, d2, method=method),
                    "quasirandom(%d, %r, method=%r)" % (a, d2, method))
        return (S.quasirandom(a, d2, method=method, seed=c),
                "quasirandom(%d, %r, method=%r, seed=%d)" % (a, d2, method, c))
    raise ValueError(route)


def drive(recipe):
    """Execute the session's calls in the recorded order in this process."""
    calls = []
    impl = []
    pre = {}
    if recipe.get("threads"):
        # the calls of this session are issued from several threads at once (any schedule); each answer is then judged as usual
        from concurrent.futures import ThreadPoolExecutor

        def safe(call):
            try:
                return _do_call(call)
            except Exception as e:
                return e
        with ThreadPoolExecutor(max_workers=int(recipe["threads"])) as ex:
            for k, res in enumerate(ex.map(safe, recipe["calls"])):
                pre[k] = res
    for k_call, call in enumerate(recipe["calls"]):
        route, method, a, b, c = call
        rec = {"route": route, "method": method, "a": a, "b": b, "c": c, "exc": "", "ndim": 0,
               "nrows": 0, "ncols": 0, "rows": [], "lo": [], "offgrid": False}
        try:
            if k_call in pre:
                if isinstance(pre[k_call], Exception):
                    raise pre[k_call]
                ret, text = pre[k_call]
            else:
                ret, text = _do_call(call)
            impl.append(text)
            out = np.array(ret, copy=True)
            # a caller may do what it likes with the array it was handed (rescale it in place, ...): later answers must
            # still depend only on (seed, dimension)
            if isinstance(ret, np.ndarray) and ret.flags.writeable and ret.size:
                ret *= 2.0
                ret -= 7.0
            rec["ndim"] = int(out.ndim)
            if out.ndim == 1:
                rec["nrows"], rec["ncols"] = 1, int(out.shape[0])
            elif out.ndim == 2:
                rec["nrows"], rec["ncols"] = int(out.shape[0]), int(out.shape[1])
            if out.ndim in (1, 2) and out.size:
                if method == "sobol":
                    rec["rows"], rec["offgrid"] = project_sobol(out)
                else:
                    rec["rows"], rec["lo"], rec["offgrid"] = project_kgf(out)
        except Exception as e:     # an exception of the implementation is an observation
            rec["exc"] = type(e).__name__
        calls.append(rec)
    keys = {}
    for call in recipe["calls"]:
        keys.setdefault((call[1], _dim(call)), set()).add(call[0] + str(call[2] == 0))
    return {"calls": calls,
            "meta": {"recipe": recipe, "source": recipe.get("source", "seeded-session"),
                     "impl_call": "; ".join(impl[:6]) + (" ..." if len(impl) > 6 else ""),
                     "nontrivial": any(len(v) > 1 for v in keys.values())}}


def _dim(call):
    route, _, a, b, c = call
    if route == "single":
        return b
    if route == "batch":
        return c
    return a if b == 0 else b


# ------------------------------------------------------------------ session recipes
def _start_seed(rng):
    u = rng.random()
    if u < 0.2:
        return rng.randint(1, 12)
    if u < 0.5:
        # windows around (and across) a power of two, the large ones as often as the small ones
        p = 1 << (rng.randint(16, 19) if rng.random() < 0.5 else rng.randint(1, 19))
        return max(1, p + rng.choice([-3, -2, -1, 0, 1, 2, 3, -rng.randint(1, 200), -rng.randint(1, 40)]))
    if u < 0.6:
        return 10 ** 6 - rng.randint(0, 3)
    return rng.randint(1, 10 ** 6)


def session(rng, values_cap, cost_cap):
    """One session around a window [s, s+k] in D dimensions, all routes, shuffled, plus
    unrelated calls in between (other method / dimension)."""
    method = "sobol" if rng.random() < 0.7 else "kgf"
    if method == "sobol":
        D = rng.choice([1, 2, 3, rng.randint(4, 16), rng.randint(17, 100), rng.randint(101, 1000),
                        1000 if rng.random() < 0.3 else rng.randint(2, 40)])
    else:
        D = rng.choice([1, 2, 3, rng.randint(4, 64), 64])
    s = _start_seed(rng)
    if method == "kgf" and rng.random() < 0.4:
        s = 0                                         # the Korobov sequence starts at seed 0
    kmax = max(0, min(256, values_cap // D - 1))
    k = rng.choice([0, 1, min(kmax, 256), rng.randint(0, kmax), rng.randint(0, kmax)])
    if s + k > 10 ** 6 + 256:
        s = 10 ** 6 + 256 - k
    unit = (s + k) * D if method == "sobol" else D        # cost of one Sobol call ~ end * D
    calls = [["batch", method, s, s + k, D], ["front", method, k + 1, D, s]]
    budget = max(2, int(cost_cap // max(unit, 1)))
    seeds = list(range(s, s + k + 1))
    rng.shuffle(seeds)
    singles = seeds[:min(len(seeds), budget, 64 if D > 16 else 257)]
    for i, sd in enumerate(singles):
        calls.append(["single", method, sd, D, 0])
        if i < 2:
            calls.append(["front", method, D, 0, sd])
    if k >= 1:
        lo = rng.randint(s, s + k)
        hi = rng.randint(lo, s + k)
        calls.append(["batch", method, lo, hi, D])                 # overlapping sub-window
    if rng.random() < 0.5:
        calls.append(["batch", method, s, s + k, D])               # the same call again
    # unrelated calls interleaved: the other method, other dimensions, other seeds
    for _ in range(rng.randint(1, 3)):
        om = rng.choice(["sobol", "kgf"])
        oD = rng.randint(1, 8)
        os_ = rng.randint(1, 5000)
        r = rng.random()
        if r < 0.4:
            calls.append(["single", om, os_, oD, 0])
        elif r < 0.7:
            calls.append(["batch", om, os_, os_ + rng.randint(0, 5), oD])
        else:
            calls.append(["front", om, rng.randint(1, 5), oD, os_])
    rng.shuffle(calls)
    return {"calls": calls}


# ------------------------------------------------------------------ the check
def _mc_dims(ctx):
    if ctx.quick:
        others = sorted(ctx.rng.sample(range(41, 1001), 25))
        return list(range(1, 41)) + others, 10
    return list(range(1, 1001)), 12


def run(ctx, explain=False):
    dims, maxm = _mc_dims(ctx)
    d = tlc.scratch_dir("c20")
    try:
        f = os.path.join(d, "sobol.json")
        rows = table_rows(dims)
        walks = [[i + 1] for i in range(len(dims))] + [[dims.index(1) + 1, dims.index(2) + 1]]
        tlc.write_json(f, {"rows": rows, "walks": walks, "calls": [], "allrows": table_rows(range(1, 1001))})
        ctx.model_check("mc/MC_QuasiRandom.tla", MC_CFG % (BITS, maxm),
                        name="MC_QuasiRandom(table, %d dims, m<=%d)" % (len(dims), maxm),
                        data_driven=True, env={"SOBOL_FILE": f}, timeout=1500)
        # (G) spec -> code: every ordered pair of calls over the spec's small call alphabet
        res = ctx.model_check("mc/MC_QuasiRandom.tla", SESSION_CFG % (BITS, 2),
                              name="MC_QuasiRandom(SessionSpec, all ordered pairs of calls)",
                              env={"SOBOL_FILE": f}, timeout=600)
    finally:
        tlc.cleanup(d)
    gen = []
    for s in res.printed:
        if s.startswith("S|"):
            gen.append({"calls": json.loads(s[2:]), "source": "tlc-enumerated"})
    if not gen:
        raise tlc.TLCFailure("SessionSpec produced no sessions")
    nsess = ctx.pick(40, 400)
    rng = random.Random(ctx.seed * 65537 + 20)
    sessions = [session(rng, ctx.pick(6000, 12000), ctx.pick(1.2e9, 4e9)) for _ in range(nsess)]
    # windows that start just below a large power of two and end just above it (the index gains a bit inside the window)
    for e in (16, 17, 18, 19):
        for (a, b) in ((1, 1), (5, 30), (200, 40)):
            D = rng.choice([1, 2, 3, 5])
            lo, hi = (1 << e) - a, (1 << e) + b
            calls = [["batch", "sobol", lo, hi, D], ["front", "sobol", hi - lo + 1, D, lo]]
            calls += [["single", "sobol", sd, D, 0] for sd in sorted({lo, (1 << e) - 1, 1 << e, (1 << e) + 1, (1 << e) + 2, hi})]
            rng.shuffle(calls)
            sessions.append({"calls": calls, "source": "power-of-two-crossing"})
    # beyond 2^19: windows across the multiples of 2^16 (none of them a power of two: the index changes in its upper bytes only)
    for m in range(8, 16):
        D = rng.choice([1, 2, 3])
        lo, hi = 65536 * m - rng.randint(1, 4), 65536 * m + rng.randint(2, 5)
        calls = [["batch", "sobol", lo, hi, D], ["front", "sobol", hi - lo + 1, D, lo], ["batch", "sobol", 65536 * m, 65536 * m + 1, D]]
        calls += [["single", "sobol", sd, D, 0] for sd in (65536 * m - 1, 65536 * m, 65536 * m + 1)]
        rng.shuffle(calls)
        sessions.append({"calls": calls, "source": "multiple-of-2^16-crossing"})
    # many dimensions at large seeds (seed x dimension >= 2^24), dimensions next to the multiples of 128
    for j in range(ctx.pick(6, 21)):
        D = 128 * (j % 7 + 1) + (1, 0, 1, -1, 1, 2)[j % 6]
        sd = (1 << 24) // D + rng.randint(1, 3000)
        calls = [["single", "sobol", sd, D, 0], ["batch", "sobol", sd, sd + 1, D], ["front", "sobol", D, 0, sd], ["single", "sobol", sd + 1, D, 0]]
        rng.shuffle(calls)
        sessions.append({"calls": calls, "source": "many-dimensions-large-seed"})
    # the front end asked the same question of both methods in turn (same count, dimension, seed and form): order kept
    for j in range(ctx.pick(4, 12)):
        D, n = rng.choice([16, 32, 64]), rng.randint(1, 4)
        sd = (1 << 22) // D + rng.randint(1, 5000)
        first, second = ("sobol", "kgf") if j % 2 else ("kgf", "sobol")
        if j % 3 == 0:
            calls = [["front", first, D, 0, sd], ["front", second, D, 0, sd], ["front", first, D, 0, sd], ["single", second, sd, D, 0]]
        else:
            calls = [["front", first, n, D, sd], ["front", second, n, D, sd], ["front", first, n, D, sd], ["batch", second, sd, sd + n - 1, D]]
        sessions.append({"calls": calls, "source": "both-methods-in-turn"})
    # a stream read in consecutive chunks (each batch starts where the last one ended), across a power of two: order kept
    for e in (16, 17, 18, 19):
        D = rng.choice([1, 2, 3, 7])
        lo = (1 << e) - rng.randint(300, 500)
        calls = []
        for _ in range(4):
            hi = lo + rng.randint(120, 220)
            calls.append(["batch", "sobol", lo, hi, D])
            lo = hi + 1
        calls += [["single", "sobol", sd, D, 0] for sd in ((1 << e) - 1, 1 << e, (1 << e) + 1, lo - 1)]
        sessions.append({"calls": calls, "source": "consecutive-chunks"})
    # the same far windows asked from several threads at once
    for j in range(ctx.pick(3, 12)):
        D = rng.choice([1, 2, 3, 5, 16])
        calls = []
        for _ in range(12):
            n = rng.choice([8, 33, 64, 200])
            st = rng.randint(20 * n, 10 ** 6 - n)
            calls.append(["batch", "sobol", st, st + n - 1, D])
        calls += [list(c) for c in calls[:4]]
        sessions.append({"calls": calls, "source": "threads", "threads": 6})
    # Korobov windows that end exactly on, or straddle, 2^16 - 1 and other all-ones seeds; points with a coordinate within 6e-8 of 1
    for e in (8, 15, 16, 17):
        D = rng.choice([1, 2, 5, 31])
        top = (1 << e) - 1
        calls = [["batch", "kgf", top - rng.randint(3, 40), top, D], ["batch", "kgf", top - 5, top + 6, D], ["front", "kgf", 7, D, top - 6],
                 ["single", "kgf", top, D, 0], ["single", "kgf", top + 1, D, 0], ["front", "kgf", D, 0, top]]
        rng.shuffle(calls)
        sessions.append({"calls": calls, "source": "kgf-all-ones-seed"})
    for D, sd in ((31, 320), (47, 3887), (2, 31879)):
        calls = [["front", "kgf", D, 0, sd], ["single", "kgf", sd, D, 0], ["front", "kgf", 3, D, sd - 1], ["batch", "kgf", sd - 1, sd + 1, D]]
        sessions.append({"calls": calls, "source": "kgf-coordinate-next-to-one"})
    # the default seed: calls that leave the seed out (single-point and batch form, both methods)
    for method in ("sobol", "kgf"):
        for D in (1, 2, 3, 6):
            calls = [["front", method, D, 0, 1], ["single", method, 1, D, 0], ["front", method, 4, D, 1], ["batch", method, 1, 4, D],
                     ["front", method, D + 1, 0, 1], ["front", method, 3, D + 1, 1]]
            sessions.append({"calls": calls, "source": "default-seed"})
    # windows that start at the first point: the net properties are checked on the returned numbers
    for i in range(ctx.pick(6, 40)):
        D = [1, 2, 3, 8, 40, 1000][i] if i < 6 else rng.randint(1, 1000)
        npts = 256 if D <= 40 else max(2, min(256, ctx.pick(6000, 12000) // D))
        calls = [["batch", "sobol", 1, npts, D], ["front", "sobol", npts, D, 1]]
        rng.shuffle(calls)
        sessions.append({"calls": calls, "source": "first-points"})
    recipes = sessions[:2] + gen + sessions[2:]
    traces = pool_map(drive, recipes, chunksize=1)
    maxd = 1
    for r in recipes:
        for c in r["calls"]:
            if c[1] == "sobol":
                maxd = max(maxd, _dim(c))
    poly = table_rows(range(1, min(maxd, 1000) + 1))
    ctx.validate("trace/Trace_QuasiRandom.tla", traces, consts="  Bits = %d\n" % BITS,
                 extra_data={"poly": poly}, batch=ctx.pick(None, 1500), timeout=1500)
    if ctx.ood:
        raise tlc.TLCFailure("constructed sessions were judged out of domain by TLC (%d): harness bug" % ctx.ood)
    ctx.exhaustive = not ctx.quick
    ctx.rule = ("Sobol generator run by TLC on the tree's direction numbers: %d dimensions x first 2^%d points "
                "(Stratified every m, Net2 on coordinates 1,2); %d TLC-enumerated ordered pairs of calls and %d seeded "
                "sessions (window [s,s+k], s<=10^6, k<=256, all routes shuffled) replayed through chmpy.sampling; "
                "non-trivial = some (method, dimension) observed by more than one route"
                % (len(dims), maxm, len(gen), len(sessions)))
    ctx.explanation = ("stratification / net property: %s; batch = single = front end and call-order "
                       "independence: exhaustive over ordered pairs of the small call alphabet, sampled windows beyond"
                       % ("exhaustive over dimensions 1..1000 x m <= 12" if not ctx.quick else
                          "dimensions 1..40 and 25 seeded others, m <= 10 (the full 1..1000 x m<=12 domain is the thorough tier)"))
    ctx.assumptions = [
        "compiled kernels _sobol*.so / _lds*.so are used as found (no Cython in the sandbox)",
        "Korobov values have no exact oracle in the spec (pow): range, shape and register consistency only",
        "seed N is point number N-1 and the origin is not skipped (read from _sobol.pyx); the net properties "
        "are stated for the first 2^m points including the origin"]
    ctx.notes["bits"] = BITS


def replay(ctx, rec):
    recipe = rec["record"]["meta"]["recipe"]
    t = drive(recipe)
    maxd = max([1] + [_dim(c) for c in recipe["calls"] if c[1] == "sobol"])
    ctx.validate("trace/Trace_QuasiRandom.tla", [t], consts="  Bits = %d\n" % BITS,
                 extra_data={"poly": table_rows(range(1, min(maxd, 1000) + 1))})


if __name__ == "__main__":
    raise SystemExit(main("C20", run, replay))
