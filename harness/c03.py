"""C03 - periodic neighbourhood queries return exactly the atoms within the radius.

(M) MC_Neighbours: the search box radius x reciprocal length (BoundsRecip) always contains the query
    ball on a bounded family of Gram matrices; the as-built box (radius / cell length) does not.
(T) real crystals on exact grids: atoms_in_radius, atomic_surroundings, molecule_environments,
    atom_group_surroundings -> Trace_Neighbours (expected rows computed by TLC by brute force over a
    box of cells certified to contain the ball).
"""
import math

from harness.common import main, pool_map
from harness import xtal
from harness.c02 import table_rows
from harness.project import to_grid

MC_CFG = """SPECIFICATION Spec
CHECK_DEADLOCK FALSE
CONSTANTS
  N = 12
  NBlocks = 32
  Rule = "%s"
  Stride = %d
INVARIANT BoxContainsBall
INVARIANT QueryMatches
"""


def recip_lengths(gram, u):
    d = xtal.det3(gram)
    adj = [gram[1][1] * gram[2][2] - gram[1][2] * gram[2][1],
           gram[0][0] * gram[2][2] - gram[0][2] * gram[2][0],
           gram[0][0] * gram[1][1] - gram[0][1] * gram[1][0]]
    return [math.sqrt(a / d) / u for a in adj]


def rows_from_positions(cr, n, elements, positions, asym=None, dist=None, u=None):
    import numpy as np
    rows, off = [], False
    if len(positions) == 0:
        return rows, off
    frac = np.asarray(cr.to_fractional(np.asarray(positions, dtype=float)), dtype=float)
    for i in range(len(frac)):
        p = []
        for x in frac[i]:
            k, o = to_grid(float(x), n, 1e-6)
            p.append(k)
            off |= o
        d2 = -1
        if dist is not None:
            v = float(dist[i]) ** 2 * n * n / (u * u)
            d2 = int(round(v))
            if abs(v - d2) > 1e-6 * max(1.0, abs(v)):
                off = True
        rows.append({"p": p, "z": int(elements[i]), "asym": int(asym[i]) + 1 if asym is not None else 0, "d2": d2,
                     "hascell": False, "cell": [0, 0, 0]})
    return rows, off


def drive(rec):
    import numpy as np
    n, u = rec["n"], rec["u"]
    t = {"n": n, "gram": rec["gram"], "asym": rec["asym"], "ops": [], "k": rec["k"], "K": rec["K"], "queries": [],
         "switched": bool(rec.get("via_switch")), "pre": rec.get("pre", {}), "choice": rec["choice"],
         "mols": rec.get("mols", []), "bonds": rec.get("bonds", []), "u2m": int(rec.get("u2m", 0)),
         "thr": xtal.bond_table(rec) if rec.get("mols") else [],
         "meta": {"recipe": rec, "source": rec.get("src", "random"), "nontrivial": True,
                  "impl_call": "Crystal(%d %r) radius=%.3f: %s" % (rec["number"], rec["choice"], rec["radius"],
                                                                  ",".join(q["kind"] for q in rec["queries"]))}}
    try:
        cr = xtal.build_crystal(rec)
    except Exception as e:
        if not rec.get("via_switch"):
            raise
        t["ops"] = list(rec.get("table_ops", []))
        t["queries"].append({"kind": "atoms_in_radius", "centre": [[0, 0, 0]], "excl": False, "exc": "switch:" + type(e).__name__,
                             "off": False, "rows": []})
        return t
    t["ops"] = [int(s.integer_code) for s in cr.space_group.symmetry_operations]
    radius = rec["radius"]
    for q in rec["queries"]:
        kind = q["kind"]
        if kind == "atoms_in_radius":
            out = {"kind": kind, "centre": [q["c"]], "excl": False, "exc": "", "off": False, "rows": []}
            try:
                origin = cr.to_cartesian(np.array(q["c"], dtype=float) / n)
                res = cr.atoms_in_radius(radius, origin=origin)
                rows, _, off = xtal.project_rows(res, n, None, u, with_cell=True)
                # "pr": the grid point the reported float is (0.9999999999999991 - 1 is the point 0, whatever cell it is listed under)
                out["rows"] = [{"p": r["pr"], "z": r["z"], "asym": r["asym"], "d2": -1, "hascell": True, "cell": r["cell"]}
                               for r in rows]
                out["off"] = bool(off)
            except Exception as e:
                out["exc"] = type(e).__name__
            t["queries"].append(out)
        elif kind == "atomic_surroundings":
            try:
                res = cr.atomic_surroundings(radius=radius)
                for i, s in enumerate(res):
                    centre, o1 = rows_from_positions(cr, n, [s["centre"]["element"]], [s["centre"]["cart_pos"]])
                    nb = s["neighbours"]
                    rows, o2 = rows_from_positions(cr, n, nb["element"], nb["cart_pos"], nb["asym_atom"], nb["distance"], u)
                    t["queries"].append({"kind": kind, "centre": [centre[0]["p"]], "excl": True, "exc": "",
                                         "off": bool(o1 or o2 or centre[0]["p"] != rec["asym"][i]["p"]
                                                     or int(s["centre"]["asym_atom"]) != i), "rows": rows})
                if len(res) != len(rec["asym"]):
                    t["queries"].append({"kind": kind, "centre": [[0, 0, 0]], "excl": True, "exc": "WrongCount",
                                         "off": False, "rows": []})
            except Exception as e:
                t["queries"].append({"kind": kind, "centre": [[0, 0, 0]], "excl": True, "exc": type(e).__name__,
                                     "off": False, "rows": []})
        elif kind == "molecule_environments":
            try:
                res = cr.molecule_environments(radius=radius)
                for mol, els, pos in res:
                    centre, o1 = rows_from_positions(cr, n, mol.atomic_numbers, mol.positions)
                    rows, o2 = rows_from_positions(cr, n, els, pos)
                    t["queries"].append({"kind": kind, "centre": [c["p"] for c in centre], "excl": True, "exc": "",
                                         "off": bool(o1 or o2), "rows": rows})
            except Exception as e:
                t["queries"].append({"kind": kind, "centre": [[0, 0, 0]], "excl": True, "exc": type(e).__name__,
                                     "off": False, "rows": []})
        elif kind == "molecule_environment_given":
            # the molecule is handed over by the caller with coordinates that are not bit-identical to the crystal's own (read
            # back from a file, single precision, nudged): its own sites are still recognised - within the default threshold,
            # or within the threshold the caller states for a coarser copy - and the neighbours are those of the sites
            out = {"kind": kind, "centre": [[0, 0, 0]], "excl": True, "exc": "", "off": False, "rows": [], "k": rec["k"], "m": 0,
                   "dm": 0, "thr_um": 1000}
            try:
                from chmpy.core import Molecule
                mols = cr.symmetry_unique_molecules()
                m0 = mols[q["mol_idx"] % len(mols)]
                centre, o1 = rows_from_positions(cr, n, m0.atomic_numbers, m0.positions)
                cpts = np.array([c["p"] for c in centre], dtype=np.int64)
                ucr, _, _ = xtal.project_rows(cr.unit_cell_atoms(), n, None, u)
                ucp = np.array([r["p"] for r in ucr], dtype=np.int64)
                K = rec["K"]
                cells = np.array([(a, b, c) for a in range(-K, K + 1) for b in range(-K, K + 1) for c in range(-K, K + 1)], dtype=np.int64) * n
                allp = (ucp[:, None, :] + cells[None, :, :]).reshape(-1, 3)
                d2 = np.unique(np.concatenate([xtal._gdot(rec["gram"], allp - c[None, :]) for c in cpts]))
                dm, thr = (q["dm"], q.get("thr"))
                spacing2 = (u / n) ** 2
                m = int(math.ceil((26.0 * dm * 1e-6 + (dm * 1e-6) ** 2) / spacing2)) + 1
                kq = None
                for k2 in range(rec["k"] - m - 1, max(rec["k"] // 4, 2), -1):
                    lo, hi = k2 - m, k2 + 1 + m
                    i0 = np.searchsorted(d2, lo)
                    if i0 >= len(d2) or d2[i0] > hi:
                        kq = k2
                        break
                if kq is None:
                    raise LookupError("no gap")
                rq = math.sqrt(kq + 0.5) * u / n
                gen = np.random.default_rng(q["seed"])
                dirs = gen.normal(size=(len(cpts), 3))
                dirs /= np.linalg.norm(dirs, axis=1)[:, None]
                pos2 = np.asarray(m0.positions, dtype=float) + dirs * (dm * 1e-6) * gen.uniform(0.5, 1.0, size=(len(cpts), 1))
                if q.get("f32"):
                    pos2 = pos2.astype(np.float32).astype(np.float64)
                m2 = Molecule.from_arrays(np.asarray(m0.atomic_numbers), pos2)
                kw = {} if thr is None else {"threshold": thr}
                _, els, pos = cr.molecule_environment(m2, radius=rq, **kw)
                rows, o2 = rows_from_positions(cr, n, els, pos)
                out.update(centre=[c["p"] for c in centre], off=bool(o1 or o2), rows=rows, k=int(kq), m=int(m), dm=int(dm),
                           thr_um=1000 if thr is None else int(round(thr * 1e6)))
            except LookupError:
                continue                                   # no radius with a clear shell below the trace's radius: not asked
            except Exception as e:
                out["exc"] = type(e).__name__
            t["queries"].append(out)
        elif kind == "molecular_shell":
            out = {"kind": kind, "centre": [[0, 0, 0]], "mols": [], "exc": "", "off": False}
            try:
                centre_mol = cr.symmetry_unique_molecules()[q["mol_idx"]]
                centre, o1 = rows_from_positions(cr, n, centre_mol.atomic_numbers, centre_mol.positions)
                off = o1
                for m in cr.molecular_shell(mol_idx=q["mol_idx"], radius=radius):
                    rows, o2 = rows_from_positions(cr, n, m.atomic_numbers, m.positions)
                    off |= o2
                    out["mols"].append([{"p": r["p"], "z": r["z"]} for r in rows])
                out.update(centre=[c["p"] for c in centre], off=bool(off))
            except Exception as e:
                out["exc"] = type(e).__name__
            t["queries"].append(out)
        elif kind == "symmetry_unique_dimers":
            out = {"kind": kind, "cents": [], "pairs": [], "reps": [], "exc": "", "off": False}
            try:
                off = False
                uniq = cr.symmetry_unique_molecules()
                for m in uniq:
                    rows, o = rows_from_positions(cr, n, m.atomic_numbers, m.positions)
                    off |= o
                    out["cents"].append([r["p"] for r in rows])
                unique_dimers, mol_dimers = cr.symmetry_unique_dimers(radius=radius)

                def d2_of(sep):
                    v = float(sep) ** 2 * n * n / (u * u)
                    k = int(round(v))
                    return k, abs(v - k) > 1e-6 * max(1.0, abs(v))
                for a, lst in enumerate(mol_dimers):
                    for cls, d in lst:
                        rows, o = rows_from_positions(cr, n, d.b.atomic_numbers, d.b.positions)
                        k, o2 = d2_of(d.separation)
                        off |= o or o2 or (d.a is not uniq[a] and not np.allclose(d.a.positions, uniq[a].positions))
                        # the transform attached to the dimer: a proper rotation, and as good a fit of the one molecule onto the
                        # other as any (reference: this harness's own SVD fit; residuals in 1e-4 A)
                        tr = getattr(d, "transform_ab", None)
                        fit = {"has": False, "orth": True, "res": 0, "ref": 0}
                        pa_ = np.asarray(d.a.positions, dtype=float)
                        pb_ = np.asarray(d.b.positions, dtype=float)
                        if tr is not None and pa_.shape == pb_.shape and len(pa_) >= 1:
                            R_ = np.asarray(tr[0], dtype=float)
                            pa_ = pa_ - pa_.mean(axis=0)
                            pb_ = pb_ - pb_.mean(axis=0)
                            H_ = pb_.T @ pa_
                            U_, S_, Vt_ = np.linalg.svd(H_)
                            dsg = np.sign(np.linalg.det(U_ @ Vt_)) or 1.0
                            Ropt = U_ @ np.diag([1.0, 1.0, dsg]) @ Vt_
                            ref = float(np.sqrt(np.mean(np.sum((pb_ @ Ropt - pa_) ** 2, axis=1))))
                            cands = [pb_ @ R_ - pa_, pb_ @ R_.T - pa_]
                            res = min(float(np.sqrt(np.mean(np.sum(c_ ** 2, axis=1)))) for c_ in cands)
                            fit = {"has": True, "orth": bool(R_.shape == (3, 3) and np.allclose(R_ @ R_.T, np.eye(3), atol=1e-8)
                                                             and abs(np.linalg.det(R_) - 1.0) < 1e-8),
                                   "res": int(round(min(res, 1e4) * 1e4)), "ref": int(round(min(ref, 1e4) * 1e4))}
                        out["pairs"].append({"a": a + 1, "cls": int(cls) + 1, "d2": k, "atoms": [{"p": r["p"], "z": r["z"]} for r in rows],
                                             "fit": fit})
                for d in unique_dimers:
                    rows, o = rows_from_positions(cr, n, d.b.atomic_numbers, d.b.positions)
                    off |= o
                    out["reps"].append({"a": int(d.a_idx) + 1, "atoms": [{"p": r["p"], "z": r["z"]} for r in rows]})
                out["off"] = bool(off)
            except Exception as e:
                out["exc"] = type(e).__name__
            t["queries"].append(out)
        elif kind == "atom_group_surroundings":
            try:
                (cel, cpos), (els, pos) = cr.atom_group_surroundings(q["atoms"], radius=radius)
                centre, o1 = rows_from_positions(cr, n, cel, cpos)
                rows, o2 = rows_from_positions(cr, n, els, pos)
                t["queries"].append({"kind": kind, "centre": [c["p"] for c in centre], "excl": True, "exc": "",
                                     "off": bool(o1 or o2), "rows": rows})
            except Exception as e:
                t["queries"].append({"kind": kind, "centre": [[0, 0, 0]], "excl": True, "exc": type(e).__name__,
                                     "off": False, "rows": []})
    return t


def choose_radius(rng, rec, maxK, nuc, target=None, budget=6.0e4):
    """Pick a radius (as integer k) and a certified box half-size K <= maxK; keeps the brute force affordable."""
    n, u, gram = rec["n"], rec["u"], rec["gram"]
    rl = recip_lengths(gram, u)
    lengths, _ = xtal.cell_params(gram, u)
    for _ in range(50):
        r = target if target else rng.choice([rng.uniform(1.0, 3.0), rng.uniform(3.0, 7.0), rng.uniform(6.0, 12.0),
                                              12.0, rng.uniform(1.0, 3.0) * max(lengths)])
        r = min(r, 13.0)
        k = int(math.floor(r * r * n * n / (u * u) - 0.5))
        if k < 1:
            target = None
            continue
        K = int(math.ceil(r * max(rl) + 2.0)) + 1
        if K <= maxK and nuc * (2 * K + 1) ** 3 <= budget:
            return math.sqrt(k + 0.5) * u / n, k, K
        target = None
    return None


def gen_rod(rng, row):
    """A straight rod of 7-9 carbon atoms in a P1 / P-1 cell of 11-15 A with acute angles, lying along a lattice direction with
    components of opposite sign: its extreme fractional coordinates are reached at its ends, which are NOT the corners of its
    Cartesian bounding box."""
    import numpy as np
    n = 48
    for _ in range(300):
        d = [rng.randint(9, 20) for _ in range(3)]
        cs = [rng.choice([0.3, 0.4, 0.5, 0.6]) for _ in range(3)]
        gram = [[d[0], 0, 0], [0, d[1], 0], [0, 0, d[2]]]
        for (i, j), c in zip(((0, 1), (0, 2), (1, 2)), cs):
            gram[i][j] = gram[j][i] = int(round(c * math.sqrt(d[i] * d[j])))
        if not xtal.positive_definite(gram) or xtal.det3(gram) * 6 < d[0] * d[1] * d[2]:
            continue
        u = rng.uniform(10.0, 13.0) / math.sqrt(max(d))
        u2m = int(round(u * u * 1e6))
        u = math.sqrt(u2m / 1e6)
        s2 = u * u / (n * n)
        rr = range(-9, 10)
        cand = np.array([(a, b, c) for a in rr for b in rr for c in rr if min(a, b, c) < 0 < max(a, b, c)], dtype=np.int64)
        d2 = xtal._gdot(gram, cand) * s2
        steps = cand[(d2 >= 1.2 ** 2) & (d2 <= 1.45 ** 2)]
        if len(steps) == 0:
            continue
        k = rng.randint(7, 9)
        # prefer directions whose ends stick out furthest (in fractional coordinates, on the low side) beyond the two
        # corners of the Cartesian bounding box; cell in the standard orientation a || x, b in the xy plane
        (la, lb, lc), (al, be, ga) = xtal.cell_params(gram, u)
        cx = lc * math.cos(be)
        cy = lc * (math.cos(al) - math.cos(be) * math.cos(ga)) / math.sin(ga)
        D = np.array([[la, 0, 0], [lb * math.cos(ga), lb * math.sin(ga), 0], [cx, cy, math.sqrt(max(lc * lc - cx * cx - cy * cy, 1e-9))]])
        Dinv = np.linalg.inv(D)
        ends = (steps * (k - 1) / float(n)) @ D                     # Cartesian end-to-end vectors
        lo, hi = np.minimum(ends, 0.0), np.maximum(ends, 0.0)
        fl, fh, fe = lo @ Dinv, hi @ Dinv, ends @ Dinv
        deficit = np.max(np.minimum(fl, fh) - np.minimum(fe, 0.0), axis=1)
        best = np.argsort(-deficit)[:max(3, len(steps) // 8)]
        v = steps[int(best[rng.randrange(len(best))])] if rng.random() < 0.8 else steps[rng.randrange(len(steps))]
        p0 = np.array([rng.randint(-6, n + 6) for _ in range(3)], dtype=np.int64)
        pts = [p0 + i * v for i in range(k)]
        asym = [{"z": 6, "p": [int(x) for x in p], "occ": 12, "label": "C%d" % (i + 1)} for i, p in enumerate(pts)]
        # all images (P1: lattice translates; P-1: the inverted rod too) at least 2.4 A away from the rod
        ops = row["ops"]
        allp = []
        ok = True
        for s in asym:
            for c in ops:
                allp.append(xtal.apply_grid(c, s["p"], n))
        if len(set(allp)) != len(allp):
            continue
        uc = np.array(allp, dtype=np.int64)
        cells = np.array([(a, b, c) for a in range(-2, 3) for b in range(-2, 3) for c in range(-2, 3)], dtype=np.int64) * n
        own = {tuple(int(x) for x in p) for p in pts}
        for p in pts:
            base = (p // n) * n
            q = uc[:, None, :] + cells[None, :, :] + base[None, None, :]
            dd = xtal._gdot(gram, q - p[None, None, :]) * s2
            for bi, ci in np.argwhere(dd < 2.4 ** 2):
                if tuple(int(x) for x in q[bi, ci]) not in own:
                    ok = False
                    break
            if not ok:
                break
        if not ok:
            continue
        return {"number": row["number"], "choice": row["choice"], "n": n, "gram": gram, "u": u, "u2m": u2m, "asym": asym,
                "mols": [list(range(1, k + 1))], "bonds": [[i, i + 1] for i in range(1, k)], "route": rng.choice(["params", "vectors"]),
                "src": "rod along a mixed-sign lattice direction in an acute cell"}
    return None


def gen(args):
    import random
    row, seed, mode, maxK = args
    rng = random.Random(seed)
    none = {"__none__": True, "meta": {}}
    if mode == "rod":
        rec = gen_rod(rng, row)
        if rec is None:
            return none
        nuc = len(row["ops"]) * len(rec["asym"])
        ch = choose_radius(rng, rec, 6, nuc, target=rng.uniform(2.4, 7.5), budget=9.0e4)
        if ch is None:
            return none
        rec["radius"], rec["k"], rec["K"] = ch
        rec["queries"] = [{"kind": "molecule_environments"}, {"kind": "molecular_shell", "mol_idx": 0},
                          {"kind": "atom_group_surroundings", "atoms": list(range(len(rec["asym"])))},
                          {"kind": "molecule_environment_given", "mol_idx": 0, "dm": 300, "seed": seed, "f32": True},
                          {"kind": "molecule_environment_given", "mol_idx": 0, "dm": 4000, "thr": 0.2, "seed": seed + 1}]
        return rec
    if mode == "mol":
        rec = xtal.gen_molecular(rng, row, nmols=rng.choice([1, 1, 2]), sizes=(2, 3, 4), vol_per_atom=rng.choice([24.0, 32.0]),
                                 oblique=len(row["ops"]) <= 2)
        if rec is None:
            return none
    elif mode == "oblique-mol":
        # a small molecule in a tiny strongly oblique cell, radius of several cell lengths, molecule-centred queries
        rh = row["number"] in (146, 148)
        rec = xtal.gen_molecular(rng, row, nmols=1, sizes=(2, 3), n=24, vol_per_atom=rng.choice([20.0, 28.0]), with_h=False,
                                 gram_fn=lambda r: xtal.oblique_gram(r, rhombohedral=rh), min_vol=60.0, max_tries=150)
        if rec is None:
            return none
        nuc = len(row["ops"]) * len(rec["asym"])
        ch = choose_radius(rng, rec, 9, nuc, target=rng.uniform(7.0, 12.5), budget=6.0e4) or choose_radius(rng, rec, 9, nuc, budget=6.0e4)
        if ch is None:
            return none
        rec["radius"], rec["k"], rec["K"] = ch
        rec["queries"] = [{"kind": "molecule_environments"}, {"kind": "atom_group_surroundings", "atoms": [0, 1]},
                          {"kind": "atoms_in_radius", "c": [rng.randint(-24, 48) for _ in range(3)]}]
        return rec
    elif mode == "mol-long":
        # a chain molecule spanning most of a small cell: its atoms fall into different cells of the search box, so the
        # box must be the hull over *all* atoms of the centre
        rec = xtal.gen_molecular(rng, row, nmols=1, sizes=(4, 5), n=24, vol_per_atom=rng.choice([16.0, 20.0]), with_h=False,
                                 gram_fn=(lambda r: xtal.oblique_gram(r)) if rng.random() < 0.5 else None, min_vol=60.0, max_tries=200)
        if rec is None:
            return none
        nuc = len(row["ops"]) * len(rec["asym"])
        ch = choose_radius(rng, rec, 7, nuc, target=rng.uniform(3.0, 7.0), budget=6.0e4) or choose_radius(rng, rec, 7, nuc, budget=6.0e4)
        if ch is None:
            return none
        rec["radius"], rec["k"], rec["K"] = ch
        rec["queries"] = [{"kind": "molecule_environments"}, {"kind": "atom_group_surroundings", "atoms": [0, 1, 2]},
                          {"kind": "atomic_surroundings"}, {"kind": "molecular_shell", "mol_idx": 0},
                          {"kind": "molecule_environment_given", "mol_idx": 0, "dm": 200, "seed": seed, "f32": seed % 2 == 0},
                          {"kind": "molecule_environment_given", "mol_idx": 0, "dm": 3000, "thr": 0.25, "seed": seed + 1}]
        if rec["radius"] <= 5.0:
            rec["queries"].append({"kind": "symmetry_unique_dimers"})
        return rec
    elif mode in ("switched-mol", "switched-atomic"):
        # an object used in hexagonal axes (unit cell, connectivity, molecules, Cartesian operations all computed) and then
        # switched in place to rhombohedral axes: neighbour queries must describe the crystal in its current setting
        pq = (rng.randint(1, 6), rng.randint(1, 12))
        gram = [[18 * pq[0], -9 * pq[0], 0], [-9 * pq[0], 18 * pq[0], 0], [0, 0, 9 * pq[1]]]
        if mode == "switched-mol":
            rec_h = xtal.gen_molecular(rng, row, nmols=1, sizes=(2, 3), vol_per_atom=rng.choice([24.0, 32.0]), gram_fn=lambda r: gram,
                                       max_tries=60)
            if rec_h is None:
                return none
        else:
            asym = xtal.gen_asym(rng, row["ops"], 12, rng.randint(1, 2), want_special=rng.random() < 0.5)
            if not asym:
                return none
            vol = max(len(row["ops"]) * len(asym) * rng.uniform(8.0, 25.0), 60.0)
            rec_h = {"number": row["number"], "choice": "H", "n": 12, "gram": gram,
                     "u": (vol / math.sqrt(xtal.det3(gram))) ** (1.0 / 3.0), "asym": asym, "route": "params"}
        rec = xtal.switched_recipe(rec_h, table_rows())
        if rec is None:
            return none
        mode = "mol" if mode == "switched-mol" else "atomic"
        row = dict(row, ops=rec["table_ops"])
    elif mode == "oblique":
        # tiny strongly oblique cell, radius of several cell lengths: the regime where a search box derived
        # from radius/|a_i| instead of radius*|a*_i| loses atoms
        n = 12
        asym = xtal.gen_asym(rng, row["ops"], n, 1, want_special=False)
        if not asym:
            return none
        gram = xtal.oblique_gram(rng, rhombohedral=row["number"] in (146, 148))
        vol = rng.uniform(45.0, 110.0) * len(row["ops"])
        u = (vol / math.sqrt(xtal.det3(gram))) ** (1.0 / 3.0)
        rec = {"number": row["number"], "choice": row["choice"], "n": n, "gram": gram, "u": u, "asym": asym,
               "route": rng.choice(["params", "vectors"])}
        nuc = len(row["ops"])
        ch = choose_radius(rng, rec, 9, nuc, target=rng.uniform(7.0, 12.5), budget=9.0e4)
        if ch is None:
            ch = choose_radius(rng, rec, 9, nuc, budget=9.0e4)
        if ch is None:
            return none
        rec["radius"], rec["k"], rec["K"] = ch
        rec["queries"] = [{"kind": "atoms_in_radius", "c": [rng.randrange(n) for _ in range(3)]},
                          {"kind": "atoms_in_radius", "c": [rng.randint(-n, 2 * n) for _ in range(3)]},
                          {"kind": "atomic_surroundings"}]
        return rec
    else:
        n = rng.choice([12, 24])
        asym = xtal.gen_asym(rng, row["ops"], n, rng.randint(1, 3), want_special=rng.random() < 0.5)
        if not asym:
            return none
        if row["number"] in (1, 2) and rng.random() < 0.8:
            gram = xtal.oblique_gram(rng)
        elif row["number"] in (146, 148) and row["choice"] == "R" and rng.random() < 0.8:
            gram = xtal.oblique_gram(rng, rhombohedral=True)
        else:
            gram = xtal.sym_gram(row["ops"], rng, oblique=True, maxentry=400)
        natoms = len(row["ops"]) * len(asym)
        vol = max(natoms * rng.uniform(8.0, 25.0), 60.0)
        u = (vol / math.sqrt(xtal.det3(gram))) ** (1.0 / 3.0)
        rec = {"number": row["number"], "choice": row["choice"], "n": n, "gram": gram, "u": u, "asym": asym,
               "route": rng.choice(["params", "vectors"])}
    nuc = len(row["ops"]) * len(rec["asym"])
    ch = choose_radius(rng, rec, maxK, nuc, budget=2.5e4 if mode == "mol" else 6.0e4)
    if ch is None:
        return none
    rec["radius"], rec["k"], rec["K"] = ch
    n = rec["n"]
    qs = [{"kind": "atoms_in_radius", "c": [rng.randrange(n) for _ in range(3)]},
          {"kind": "atoms_in_radius", "c": [rng.randint(-n, 2 * n) for _ in range(3)]}]
    if rng.random() < 0.5:
        qs.append({"kind": "atoms_in_radius", "c": list(rec["asym"][0]["p"])})
    qs.append({"kind": "atomic_surroundings"})
    if mode == "mol":
        qs.append({"kind": "molecule_environments"})
        qs.append({"kind": "atom_group_surroundings", "atoms": [0, 1] if rng.random() < 0.7 else [0]})
        if rec["radius"] <= 6.5:
            qs.append({"kind": "molecular_shell", "mol_idx": rng.randrange(len(rec["mols"]))})
            qs.append({"kind": "symmetry_unique_dimers"})
    rec["queries"] = qs
    return rec


def special_rows(rows):
    """Settings that make the search-box defect visible: strongly oblique triclinic / rhombohedral cells."""
    pick = []
    for r in rows:
        if r["number"] in (1, 2) or (r["number"] in (146, 148) and r["choice"] == "R"):
            pick.append(r)
    return pick


def run(ctx):
    rows = table_rows()
    ctx.model_check("mc/MC_Neighbours.tla", MC_CFG % ("recip", ctx.pick(7, 1)), name="MC_Neighbours(recip)", timeout=ctx.pick(300, 1500))
    rng = ctx.rng
    jobs = []
    sel = rng.sample(rows, ctx.pick(90, 530)) if ctx.quick else list(rows)
    maxK = ctx.pick(4, 6)
    for i, r in enumerate(sel):
        for k in range(ctx.pick(1, 6)):
            mode = "mol" if (i + k) % 3 == 0 and len(r["ops"]) <= 48 else "atomic"
            jobs.append((r, ctx.seed * 99991 + i * 13 + k, mode, maxK))
    for j, r in enumerate(special_rows(rows) * ctx.pick(8, 150)):
        jobs.append((r, ctx.seed * 7 + 5000 + j, ("oblique", "oblique-mol", "oblique", "mol")[j % 4], maxK))
    hex_rows = [r for r in rows if r["number"] in (146, 148, 155, 160, 161, 166, 167) and r["choice"] == "H"]
    for j in range(ctx.pick(14, 420)):
        jobs.append((hex_rows[j % len(hex_rows)], ctx.seed * 13 + 7000 + j, "switched-mol" if j % 2 else "switched-atomic", maxK))
    tri = [r for r in rows if r["number"] in (1, 2)]
    for j in range(ctx.pick(40, 1200)):
        jobs.append((tri[j % len(tri)], ctx.seed * 11 + 9000 + j, "mol-long", maxK))
    for j in range(ctx.pick(60, 900)):
        jobs.append((tri[j % len(tri)], ctx.seed * 23 + 12000 + j, "rod", maxK))
    recs = [x for x in pool_map(gen, jobs) if "__none__" not in x]
    ctx.notes["structures_generated"] = len(recs)
    traces = pool_map(drive, recs)
    ctx.notes["queries"] = sum(len(t["queries"]) for t in traces)
    ctx.validate("trace/Trace_Neighbours.tla", traces, batch=1500, timeout=2400)
    ctx.rule = ("crystals on exact grids (N=12/24 atomic, N=48 molecular) in %d settings plus oblique triclinic and rhombohedral "
                "cells; radii 1-13 A as R^2=(k+1/2)u^2/N^2; centres: grid points inside/outside the cell, every asymmetric atom, "
                "symmetry-unique molecules and atom groups; expected rows by TLC brute force over a box certified to contain "
                "the ball; every trace holds 4-7 queries and is non-trivial" % len(sel))
    ctx.explanation = "queries sampled; design-level MC_Neighbours exhaustive over its bounded Gram family"
    ctx.assumptions = ["returned Cartesian positions are pulled back with the crystal's own to_fractional and projected to the grid "
                       "(residual > 1e-6 rejected as OnGrid); C12 checks that conversion"]


def replay(ctx, rec):
    ctx.validate("trace/Trace_Neighbours.tla", [drive(rec["record"]["meta"]["recipe"])])


if __name__ == "__main__":
    raise SystemExit(main("C03", run, replay))
