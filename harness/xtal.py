"""Generators of exact-grid crystals and projection of real Crystal output (shared by C01, C03,
C04, C10, C13, C14). Integer arithmetic here is used only to *choose inputs* (e.g. to find special
positions or compatible metrics); every verdict is TLC's.
"""
import math

from harness.c11 import decode
from harness.project import to_grid

SPECIAL_FRACS = [(0, 1), (1, 2), (1, 3), (2, 3), (1, 4), (3, 4), (1, 6), (5, 6), (1, 8), (3, 8)]
ELEMENTS = [1, 6, 7, 8, 9, 15, 16, 17, 26, 35]
SYMBOLS = {1: "H", 6: "C", 7: "N", 8: "O", 9: "F", 15: "P", 16: "S", 17: "Cl", 26: "Fe", 35: "Br"}


def rotations(ops):
    seen, out = set(), []
    for c in ops:
        r, _ = decode(c)
        key = tuple(map(tuple, r))
        if key not in seen:
            seen.add(key)
            out.append(r)
    return out


def apply_grid(c, p, n):
    r, t = decode(c)
    return tuple((sum(r[i][j] * p[j] for j in range(3)) + t[i] * (n // 12)) % n for i in range(3))


def _matmul_t_g_r(r, g):
    # R^T G R
    gr = [[sum(g[i][k] * r[k][j] for k in range(3)) for j in range(3)] for i in range(3)]
    return [[sum(r[k][i] * gr[k][j] for k in range(3)) for j in range(3)] for i in range(3)]


def _det3(g):
    return (g[0][0] * (g[1][1] * g[2][2] - g[1][2] * g[2][1]) - g[0][1] * (g[1][0] * g[2][2] - g[1][2] * g[2][0])
            + g[0][2] * (g[1][0] * g[2][1] - g[1][1] * g[2][0]))


def positive_definite(g):
    return g[0][0] > 0 and g[0][0] * g[1][1] - g[0][1] * g[1][0] > 0 and _det3(g) > 0


def sym_gram(ops, rng, oblique=False, maxentry=4000):
    """Integer Gram matrix invariant under every rotation part of `ops`:
    G = sum_R R^T G0 R / gcd for a random positive definite integer G0."""
    rots = rotations(ops)
    for _ in range(200):
        d = [rng.randint(6, 24) for _ in range(3)]
        lim = 5 if oblique else 3
        o = [rng.randint(-lim, lim) for _ in range(3)]
        if oblique:
            o = [x * 2 for x in o]
        g0 = [[d[0], o[0], o[1]], [o[0], d[1], o[2]], [o[1], o[2], d[2]]]
        if not positive_definite(g0):
            continue
        g = [[0] * 3 for _ in range(3)]
        for r in rots:
            m = _matmul_t_g_r(r, g0)
            for i in range(3):
                for j in range(3):
                    g[i][j] += m[i][j]
        k = 0
        for row in g:
            for x in row:
                k = math.gcd(k, abs(x))
        g = [[x // k for x in row] for row in g]
        if positive_definite(g) and max(abs(x) for row in g for x in row) <= maxentry:
            return g
    raise RuntimeError("no gram matrix found")


def cell_params(gram, u):
    """(lengths in Angstrom, angles in radians) of the cell with Gram matrix gram * u^2."""
    a, b, c = (math.sqrt(gram[i][i]) * u for i in range(3))
    al = math.acos(gram[1][2] / math.sqrt(gram[1][1] * gram[2][2]))
    be = math.acos(gram[0][2] / math.sqrt(gram[0][0] * gram[2][2]))
    ga = math.acos(gram[0][1] / math.sqrt(gram[0][0] * gram[1][1]))
    return [a, b, c], [al, be, ga]


def random_site_point(rng, n, special_prob=0.5, spread=1):
    p = []
    for _ in range(3):
        if rng.random() < special_prob:
            cands = [(a, b) for a, b in SPECIAL_FRACS if n % b == 0]
            a, b = rng.choice(cands)
            v = a * (n // b)
        else:
            v = rng.randrange(n)
        v += n * rng.randint(-spread, spread) if rng.random() < 0.3 else 0
        p.append(v)
    return p


def orbit(ops, p, n):
    return {apply_grid(c, p, n) for c in ops}


def gen_asym(rng, ops, n, nsites, want_special=True, occ_choices=(12, 12, 12, 6, 4, 3)):
    """Sites with pairwise disjoint orbits; tries to include a special position."""
    sites, used = [], set()
    tries = 0
    while len(sites) < nsites and tries < 400:
        tries += 1
        sp = 0.8 if (want_special and not sites) else 0.3
        p = random_site_point(rng, n, special_prob=sp)
        orb = orbit(ops, p, n)
        if want_special and not sites and len(orb) == len(ops) and len(ops) > 1 and tries < 60:
            continue
        if orb & used:
            continue
        used |= orb
        z = rng.choice(ELEMENTS)
        sites.append({"z": z, "p": p, "occ": rng.choice(occ_choices), "label": "%s%d" % (SYMBOLS[z], len(sites) + 1)})
    return sites


def build_crystal(rec):
    """Real chmpy Crystal from an exact recipe:
    {number, choice, n, gram, u, asym:[{z,p,occ,label}], route: 'params'|'vectors', rot: optional 3x3}"""
    import numpy as np
    from chmpy.crystal import Crystal, UnitCell, SpaceGroup, AsymmetricUnit
    from chmpy.core.element import Element
    sg = SpaceGroup(rec["number"], choice=rec["choice"]) if rec["choice"] else SpaceGroup(rec["number"])
    lengths, angles = cell_params(rec["gram"], rec["u"])
    uc = UnitCell.from_lengths_and_angles(lengths, angles)
    if rec.get("route") == "vectors":
        d = np.array(uc.direct, dtype=float)
        if rec.get("rot") is not None:
            d = d @ np.array(rec["rot"], dtype=float).T
        uc = UnitCell(d)
    n = rec["n"]
    pos = np.array([[x / n for x in s["p"]] for s in rec["asym"]], dtype=float)
    els = [Element.from_atomic_number(s["z"]) for s in rec["asym"]]
    labels = [s["label"] for s in rec["asym"]]
    kw = {}
    if any(s["occ"] != 12 for s in rec["asym"]):
        kw["occupation"] = np.array([s["occ"] / 12.0 for s in rec["asym"]])
    asym = AsymmetricUnit(els, pos, labels=labels, **kw)
    return Crystal(uc, sg, asym)


def gram_tol(gram, n):
    return 1e-9 * n * n * (gram[0][0] + gram[1][1] + gram[2][2]) + 1e-6


def project_rows(d, n, gram, u, with_cell=False, max_cc=60):
    """Project a unit_cell_atoms()/slab() style dict to grid rows; returns (rows, cc, offgrid)."""
    import numpy as np
    off = False
    rows = []
    frac = np.asarray(d["frac_pos"], dtype=float)
    for i in range(len(frac)):
        p = []
        for x in frac[i]:
            k, o = to_grid(float(x), n, 1e-6)
            p.append(k)
            off |= o
        occ, o = to_grid(float(d["occupation"][i]), 12, 1e-9)
        off |= o
        row = {"p": p, "asym": int(d["asym_atom"][i]) + 1, "op": int(d["symop"][i]), "z": int(d["element"][i]),
               "label": str(d["label"][i]), "occ": occ}
        if with_cell:
            cell = []
            for x in d["cell"][i]:
                k, o = to_grid(float(x), 1, 1e-9)
                cell.append(k)
                off |= o
            row["cell"] = cell
        rows.append(row)
    cc = []
    if gram is not None and len(rows):
        cart = np.asarray(d["cart_pos"], dtype=float)
        scale = n * n / (u * u)
        tol = gram_tol(gram, n)
        m = len(rows)
        pairs = [(i, i) for i in range(m)] + [(i, (i * 7 + 3) % m) for i in range(m)]
        step = max(1, len(pairs) // max_cc)
        for i, j in pairs[::step]:
            v = float(np.dot(cart[i], cart[j])) * scale
            k = int(round(v))
            if abs(v - k) > tol or abs(k) >= 2**31:
                off = True
                k = 0
            cc.append([i + 1, j + 1, k])
    return rows, cc, off
