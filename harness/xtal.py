"""Generators of exact-grid crystals and projection of real Crystal output (shared by C01, C03,
C04, C10, C13, C14). Integer arithmetic here is used only to *choose inputs* (e.g. to find special
positions or compatible metrics); every verdict is TLC's.
"""
import math
from fractions import Fraction

from harness.c11 import decode
from harness.project import to_grid

SPECIAL_FRACS = [(0, 1), (1, 2), (1, 3), (2, 3), (1, 4), (3, 4), (1, 6), (5, 6), (1, 8), (3, 8)]
ELEMENTS = [1, 6, 7, 8, 9, 15, 16, 17, 26, 35]
SYMBOLS = {1: "H", 6: "C", 7: "N", 8: "O", 9: "F", 14: "Si", 15: "P", 16: "S", 17: "Cl", 26: "Fe", 35: "Br", 53: "I"}


def rotations(ops):
    seen, out = set(), []
    for c in ops:
        r, _ = decode(c)
        key = tuple(map(tuple, r))
        if key not in seen:
            seen.add(key)
            out.append(r)
    return out


def apply_grid(c, p, n):
    r, t = decode(c)
    return tuple((sum(r[i][j] * p[j] for j in range(3)) + t[i] * (n // 12)) % n for i in range(3))


def _matmul_t_g_r(r, g):
    # R^T G R
    gr = [[sum(g[i][k] * r[k][j] for k in range(3)) for j in range(3)] for i in range(3)]
    return [[sum(r[k][i] * gr[k][j] for k in range(3)) for j in range(3)] for i in range(3)]


def _det3(g):
    return (g[0][0] * (g[1][1] * g[2][2] - g[1][2] * g[2][1]) - g[0][1] * (g[1][0] * g[2][2] - g[1][2] * g[2][0])
            + g[0][2] * (g[1][0] * g[2][1] - g[1][1] * g[2][0]))


def positive_definite(g):
    return g[0][0] > 0 and g[0][0] * g[1][1] - g[0][1] * g[1][0] > 0 and _det3(g) > 0


def sym_gram(ops, rng, oblique=False, maxentry=4000):
    """Integer Gram matrix invariant under every rotation part of `ops`:
    G = sum_R R^T G0 R / gcd for a random positive definite integer G0."""
    rots = rotations(ops)
    for _ in range(200):
        d = [rng.randint(6, 24) for _ in range(3)]
        lim = 5 if oblique else 3
        o = [rng.randint(-lim, lim) for _ in range(3)]
        if oblique:
            o = [x * 2 for x in o]
        g0 = [[d[0], o[0], o[1]], [o[0], d[1], o[2]], [o[1], o[2], d[2]]]
        if not positive_definite(g0):
            continue
        g = [[0] * 3 for _ in range(3)]
        for r in rots:
            m = _matmul_t_g_r(r, g0)
            for i in range(3):
                for j in range(3):
                    g[i][j] += m[i][j]
        k = 0
        for row in g:
            for x in row:
                k = math.gcd(k, abs(x))
        g = [[x // k for x in row] for row in g]
        if positive_definite(g) and max(abs(x) for row in g for x in row) <= maxentry:
            return g
    raise RuntimeError("no gram matrix found")


def oblique_gram(rng, rhombohedral=False):
    """Strongly oblique integer Gram matrices (angles roughly 35-118 degrees) for P1/P-1, or the
    one-parameter rhombohedral family (R-centred groups on rhombohedral axes)."""
    for _ in range(500):
        if rhombohedral:
            g = rng.choice([20, 30, 51, 60])
            c = rng.choice([-0.42, -0.39, -0.3, 0.5, 0.7, 0.8])
            o = int(round(g * c))
            gram = [[g, o, o], [o, g, o], [o, o, g]]
        else:
            d = [rng.randint(8, 40) for _ in range(3)]
            cs = [rng.choice([-0.45, -0.35, -0.2, 0.3, 0.5, 0.7, 0.8]) for _ in range(3)]
            o01 = int(round(cs[0] * math.sqrt(d[0] * d[1])))
            o02 = int(round(cs[1] * math.sqrt(d[0] * d[2])))
            o12 = int(round(cs[2] * math.sqrt(d[1] * d[2])))
            gram = [[d[0], o01, o02], [o01, d[1], o12], [o02, o12, d[2]]]
        if positive_definite(gram) and _det3(gram) * 6 > gram[0][0] * gram[1][1] * gram[2][2] * 0.3:
            return gram
    raise RuntimeError("no oblique gram")


def cell_params(gram, u):
    """(lengths in Angstrom, angles in radians) of the cell with Gram matrix gram * u^2."""
    a, b, c = (math.sqrt(gram[i][i]) * u for i in range(3))
    al = math.acos(gram[1][2] / math.sqrt(gram[1][1] * gram[2][2]))
    be = math.acos(gram[0][2] / math.sqrt(gram[0][0] * gram[2][2]))
    ga = math.acos(gram[0][1] / math.sqrt(gram[0][0] * gram[1][1]))
    return [a, b, c], [al, be, ga]


def random_site_point(rng, n, special_prob=0.5, spread=1):
    p = []
    for _ in range(3):
        if rng.random() < special_prob:
            cands = [(a, b) for a, b in SPECIAL_FRACS if n % b == 0]
            a, b = rng.choice(cands)
            v = a * (n // b)
        else:
            v = rng.randrange(n)
        v += n * rng.randint(-spread, spread) if rng.random() < 0.3 else 0
        p.append(v)
    return p


def orbit(ops, p, n):
    return {apply_grid(c, p, n) for c in ops}


def gen_asym(rng, ops, n, nsites, want_special=True, occ_choices=(12, 12, 12, 6, 4, 3)):
    """Sites with pairwise disjoint orbits; tries to include a special position."""
    sites, used = [], set()
    tries = 0
    while len(sites) < nsites and tries < 400:
        tries += 1
        sp = 0.8 if (want_special and not sites) else 0.3
        p = random_site_point(rng, n, special_prob=sp)
        orb = orbit(ops, p, n)
        if want_special and not sites and len(orb) == len(ops) and len(ops) > 1 and tries < 60:
            continue
        if orb & used:
            continue
        used |= orb
        z = rng.choice(ELEMENTS)
        sites.append({"z": z, "p": p, "occ": rng.choice(occ_choices), "label": "%s%d" % (SYMBOLS[z], len(sites) + 1)})
    return sites


FOREIGN_CIF = """data_shifted
_cell_length_a 5.1
_cell_length_b 6.2
_cell_length_c 7.3
_cell_angle_alpha 81
_cell_angle_beta 95
_cell_angle_gamma 102
loop_
_symmetry_equiv_pos_as_xyz
x,y,z
-x+1/4,-y,-z
loop_
_atom_site_label
_atom_site_type_symbol
_atom_site_fract_x
_atom_site_fract_y
_atom_site_fract_z
C1 C 0.31 0.22 0.13
O1 O 0.61 0.42 0.73
"""


def other_structures_loaded_earlier():
    """What a process has typically done before the judged calls: other structures were read - among them a CIF whose
    operations are not a tabulated setting (inversion centre at 1/8,0,0), a P1 POSCAR - used, and dropped."""
    from chmpy.crystal import Crystal
    for load in (lambda: Crystal.from_cif_string(FOREIGN_CIF),
                 lambda: Crystal.from_vasp_string("other\n1.0\n4.0 0.0 0.0\n0.3 5.0 0.0\n0.1 0.2 6.0\nC O\n1 1\nDirect\n0.1 0.2 0.3\n0.6 0.5 0.4\n")):
        try:
            c = load()
            c.unit_cell_atoms()
            c.as_P1()
            c.to_shelx_string()
            c.to_cif_string()
            c.to_poscar_string()
        except Exception:          # what these return is judged elsewhere (C10); here they only are the process's past
            pass


def build_crystal(rec):
    """Real chmpy Crystal from an exact recipe:
    {number, choice, n, gram, u, asym:[{z,p,occ,label}], route: 'params'|'vectors', rot: optional 3x3}"""
    import numpy as np
    from chmpy.crystal import Crystal, UnitCell, SpaceGroup, AsymmetricUnit
    from chmpy.core.element import Element
    if rec.get("via_switch"):
        # an object that has been *used* in the other trigonal setting and is then switched in place
        cr = build_crystal(dict(rec["via_switch"], route=rec.get("route", "params")))
        for warm in (cr.unit_cell_atoms, cr.unit_cell_connectivity, cr.unit_cell_molecules, cr.symmetry_unique_molecules,
                     cr.cartesian_symmetry_operations):
            try:
                warm()
            except Exception:        # the earlier use only warms the object up; what it returns is judged on unswitched crystals
                pass
        # a request that is refused (a misspelt choice) leaves the object as it was; the caller carries on with it
        try:
            cr.choose_trigonal_lattice({"R": "r", "H": "hex"}.get(rec["choice"], "r"))
        except Exception:
            pass
        cr.choose_trigonal_lattice(rec["choice"])
        return cr
    sg = SpaceGroup(rec["number"], choice=rec["choice"]) if rec["choice"] else SpaceGroup(rec["number"])
    lengths, angles = cell_params(rec["gram"], rec["u"])
    uc = UnitCell.from_lengths_and_angles(lengths, angles)
    if rec.get("route") == "respec":
        # a cell object that described another cell, was used (volume, reciprocal lengths), and is re-specified in place
        uc = UnitCell.from_lengths_and_angles([2.3 * lengths[0], 0.8 * lengths[1], 1.4 * lengths[2]], [1.25, 1.45, 1.85])
        uc.volume(), uc.a_star, uc.b_star, uc.c_star, uc.parameters
        uc.set_lengths_and_angles(lengths, angles)
    if rec.get("route") == "vectors":
        d = np.array(uc.direct, dtype=float)
        if rec.get("rot") is not None:
            d = d @ np.array(rec["rot"], dtype=float).T
        uc = UnitCell(d)
    n = rec["n"]
    pos = np.array([[x / n for x in s["p"]] for s in rec["asym"]], dtype=float)
    if rec.get("int_positions") and all(x % n == 0 for s in rec["asym"] for x in s["p"]):
        # whole-number coordinates handed over as integers (a legitimate way to write the origin, a cell corner, ...)
        pos = np.array([[x // n for x in s["p"]] for s in rec["asym"]], dtype=int)
    if rec.get("decimals"):
        # coordinates as they come out of a file: exact positions rounded to a number of decimals
        pos = np.round(pos, int(rec["decimals"]))
    els = [Element.from_atomic_number(s["z"]) for s in rec["asym"]]
    labels = [s["label"] for s in rec["asym"]]
    kw = {}
    if any(s["occ"] != 12 for s in rec["asym"]):
        kw["occupation"] = np.array([s["occ"] / 12.0 for s in rec["asym"]])
    asym = AsymmetricUnit(els, pos, labels=labels, **kw)
    return Crystal(uc, sg, asym)


MAT_RH = [[-1, 1, 0], [1, 0, -1], [1, 1, 1]]            # M: x_R = x_H . M
MAT_HR3 = [[-1, 1, 1], [2, 1, 1], [-1, -2, 1]]           # 3 M^-1


def switched_recipe(rec_h, rows):
    """The rhombohedral-axes description of a hexagonal-axes recipe (mirror of Reexpress!SwitchTrigonal, used only to
    *propose* the post-switch crystal: the trace carries the H state and TLC certifies the proposal, else OOD)."""
    g = rec_h["gram"]
    t3 = MAT_HR3
    tg = [[sum(t3[i][k] * g[k][j] for k in range(3)) for j in range(3)] for i in range(3)]
    gr = [[sum(tg[i][k] * t3[j][k] for k in range(3)) for j in range(3)] for i in range(3)]
    if any(x % 9 for row in gr for x in row):
        return None
    row_r = [r for r in rows if r["number"] == rec_h["number"] and r["choice"] == "R"][0]
    asym = []
    for s in rec_h["asym"]:
        p = s["p"]
        asym.append(dict(s, p=[sum(p[k] * MAT_RH[k][j] for k in range(3)) for j in range(3)]))
    rec = dict(rec_h, choice="R", gram=[[x // 9 for x in row] for row in gr], asym=asym)
    rec["pre"] = {"choice": "H", "n": rec_h["n"], "gram": rec_h["gram"], "pts": [list(s["p"]) for s in rec_h["asym"]]}
    rec["via_switch"] = {k: rec_h[k] for k in ("number", "choice", "n", "gram", "u", "asym") if k in rec_h}
    rec["table_ops"] = row_r["ops"]
    return rec


def gram_tol(gram, n):
    return 1e-9 * n * n * (gram[0][0] + gram[1][1] + gram[2][2]) + 1e-6


def project_rows(d, n, gram, u, with_cell=False, max_cc=60, tol=1e-6):
    """Project a unit_cell_atoms()/slab() style dict to grid rows; returns (rows, cc, offgrid)."""
    import numpy as np
    off = False
    rows = []
    frac = np.asarray(d["frac_pos"], dtype=float)
    for i in range(len(frac)):
        cell = [0, 0, 0]
        if with_cell:
            cell = []
            for x in d["cell"][i]:
                k, o = to_grid(float(x), 1, 1e-9)
                cell.append(k)
                off |= o
        p, fl, pr = [], [], []
        for c, x in enumerate(frac[i]):
            # position relative to the reported cell: its integer part is shipped separately (fl) so that TLC decides
            # "in [0,1)"; the grid point is taken modulo the lattice (0.9999999999997 is the site 0, not the site N)
            xr = float(x) - cell[c]
            k, o = to_grid(xr, n, tol)
            # exactly: (a + cell) - cell need not be a in floating point (0.9999999999999999 - 1 + 1 = 1.0)
            fl.append(int(math.floor(Fraction(float(x)) - cell[c])) if math.isfinite(xr) else 99)
            p.append(k % n + n * cell[c])
            pr.append(k + n * cell[c])           # the grid point the reported float actually is (for cart_pos)
            off |= o
        occ, o = to_grid(float(d["occupation"][i]), 12, 1e-9)
        off |= o
        row = {"p": p, "fl": fl, "pr": pr, "asym": int(d["asym_atom"][i]) + 1, "op": int(d["symop"][i]), "z": int(d["element"][i]),
               "label": str(d["label"][i]), "occ": occ}
        if with_cell:
            row["cell"] = cell
        rows.append(row)
    cc = []
    if gram is not None and len(rows):
        cart = np.asarray(d["cart_pos"], dtype=float)
        scale = n * n / (u * u)
        gtol = gram_tol(gram, n)
        m = len(rows)
        pairs = [(i, i) for i in range(m)] + [(i, (i * 7 + 3) % m) for i in range(m)]
        step = max(1, len(pairs) // max_cc)
        for i, j in pairs[::step]:
            v = float(np.dot(cart[i], cart[j])) * scale
            k = int(round(v))
            if abs(v - k) > gtol or abs(k) >= 2**31:
                off = True
                k = 0
            cc.append([i + 1, j + 1, k])
    return rows, cc, off


# ------------------------------------------------------------------ molecular crystals (C04, C03, C13, C14)
# Covalent radii (CSD) and standard atomic weights of the elements the generated molecules are made of: the harness's copy of
# Molecules!CovRadius100 / Mass1000.  They are independent knowledge (not read from the library): tables proposed from them are
# certified by TLC against the specification's own constants (ThresholdsOK, MassesOK), else OOD.
COV = {1: 0.23, 6: 0.68, 7: 0.68, 8: 0.68, 9: 0.64, 14: 1.20, 15: 1.05, 16: 1.02, 17: 0.99, 35: 1.21, 53: 1.40}
MASS_Z = {1: 1.008, 6: 12.011, 7: 14.007, 8: 15.999, 9: 18.998, 14: 28.086, 15: 30.974, 16: 32.065, 17: 35.453, 35: 79.904,
          53: 126.904}
# terminal heavy atoms and the window (A) their bond to the parent is drawn from: ordinary single-bond lengths
HEAVY_BOND = {17: (1.68, 1.86), 35: (1.86, 2.04), 53: (2.06, 2.36), 16: (1.72, 1.92)}


def _clear(za, zb, tol=0.4):
    """Smallest allowed non-bonded contact (A): well clear of any sane bonding threshold."""
    return max(2.2, COV[za] + COV[zb] + tol + 0.25)


def det3(g):
    return _det3(g)


def _gdot(gram, d):
    import numpy as np
    g = np.asarray(gram, dtype=np.int64)
    return np.einsum("...i,ij,...j->...", d, g, d)


def gen_molecular(rng, row, nmols=1, sizes=(2, 3), n=48, vol_per_atom=32.0, with_h=True, max_tries=400,
                  boundary_prob=0.6, oblique=False, gram_fn=None, min_vol=150.0, halogens=0.0, bond_tolerance=0.4,
                  face_bond=False, h_axis=None, h2=False):
    """A molecular crystal on the grid: `nmols` rigid mini-molecules (trees of bonded atoms) on general
    positions of setting `row`, bonded distances <= 1.5 A (X-H <= 1.12 A), every other contact >= 2.2 A.
    Returns a recipe dict (see build_crystal) with 'mols' = list of lists of asym indices (1-based) and
    'bonds' = list of [i, j] asym index pairs, or None if no placement was found."""
    import numpy as np
    ops = row["ops"]
    nops = len(ops)
    for attempt in range(max_tries):
        gram = gram_fn(rng) if gram_fn else sym_gram(ops, rng, oblique=oblique, maxentry=1500)
        szs = [rng.choice(sizes) for _ in range(nmols)]
        nat = sum(szs)
        vol = max(nops * nat * vol_per_atom * (1.0 + 0.04 * attempt), min_vol)
        bprob = boundary_prob if attempt % 3 == 0 else 0.15
        u = (vol / math.sqrt(det3(gram))) ** (1.0 / 3.0)
        s2 = u * u / (n * n)                      # Angstrom^2 per grid unit^2
        rng_d = range(-5, 6)
        cand = np.array([(a, b, c) for a in rng_d for b in rng_d for c in rng_d if (a, b, c) != (0, 0, 0)],
                        dtype=np.int64)
        d2 = _gdot(gram, cand) * s2
        tol = bond_tolerance
        if tol > 0.6:
            # stretched bonds for a caller that asks for a generous bonding tolerance: longer than any default threshold (+ band),
            # shorter than the requested one (- band)
            heavy = cand[(d2 >= 1.86 ** 2) & (d2 <= (1.28 + tol - 0.1) ** 2)]
            light = cand[(d2 >= 1.42 ** 2) & (d2 <= (0.87 + tol - 0.1) ** 2)]
        else:
            heavy = cand[(d2 >= 1.15 ** 2) & (d2 <= 1.5 ** 2)]
            light = cand[(d2 >= 0.85 ** 2) & (d2 <= 1.12 ** 2)]
        hh = cand[(d2 >= 0.62 ** 2) & (d2 <= 0.76 ** 2)]            # H-H bonds (dihydrogen: 0.74 A; bonded below 0.86 A)
        if h2 and len(hh) == 0:
            continue
        if h_axis is not None:
            # X-H bonds exactly along one cell axis
            other = [c for c in range(3) if c != h_axis]
            light = light[(light[:, other[0]] == 0) & (light[:, other[1]] == 0)]
        if len(heavy) == 0:
            continue
        hvec = {}
        if halogens:
            rng_h = range(-8, 9)
            cand_h = np.array([(a, b, c) for a in rng_h for b in rng_h for c in rng_h if (a, b, c) != (0, 0, 0)], dtype=np.int64)
            d2h = _gdot(gram, cand_h) * s2
            hvec = {z: cand_h[(d2h >= lo ** 2) & (d2h <= hi ** 2)] for z, (lo, hi) in HEAVY_BOND.items()}
            hvec = {z: v for z, v in hvec.items() if len(v)}
        asym, mols, bonds = [], [], []
        ok = True
        # face_bond: the first atom sits just inside the low face of the most oblique axis and its first bond leaves the cell
        # as steeply as possible (far end as deep into the neighbouring cell, in fractional terms, as a bond allows)
        dg = det3(gram)
        adj = [gram[1][1] * gram[2][2] - gram[1][2] ** 2, gram[0][0] * gram[2][2] - gram[0][2] ** 2, gram[0][0] * gram[1][1] - gram[0][1] ** 2]
        fax = max(range(3), key=lambda i: gram[i][i] * adj[i] / float(dg))
        steep = None
        if face_bond:
            rr = range(-18, 19)
            big = np.array([(a, b, c) for a in rr for b in rr for c in rr if (a, b, c) != (0, 0, 0)], dtype=np.int64)
            dbig = _gdot(gram, big) * s2
            big = big[(dbig >= 1.3 ** 2) & (dbig <= 1.5 ** 2)]
            if len(big) == 0:
                continue
            steep = big[np.argsort(big[:, fax])[:3]]
        for m, size in enumerate(szs):
            placed = False
            for _ in range(40):
                if rng.random() < bprob:
                    p0 = [rng.choice([rng.randint(-6, 6), n + rng.randint(-6, 6), rng.randrange(n)]) for _ in range(3)]
                else:
                    p0 = [rng.randrange(n) for _ in range(3)]
                if face_bond and m == 0:
                    p0[fax] = rng.randint(0, 2)
                pts = [np.array(p0, dtype=np.int64)]
                zs = [1] if h2 else [rng.choice([6, 7, 8])]
                bl = []
                good = True
                for k in range(1, size):
                    parent = rng.randrange(len(pts))
                    if h2:
                        # a dihydrogen molecule: two hydrogens bonded to each other
                        q = pts[0] + hh[rng.randrange(len(hh))]
                        if k > 1:
                            good = False
                            break
                        pts.append(q)
                        zs.append(1)
                        bl.append((0, 1))
                        continue
                    if zs[parent] in HEAVY_BOND:
                        parent = 0
                    if hvec and zs[parent] != 1 and rng.random() < halogens:
                        z = rng.choice(sorted(hvec))
                        vecs = hvec[z]
                    elif with_h and len(light) and zs[parent] != 1 and rng.random() < 0.3:
                        z, vecs = 1, light
                    else:
                        z, vecs = rng.choice([6, 7, 8, 9]), heavy
                        if zs[parent] == 1:
                            parent = 0
                    if face_bond and m == 0 and k == 1:
                        parent, z, vecs = 0, rng.choice([6, 7, 8]), steep
                    q = pts[parent] + vecs[rng.randrange(len(vecs))]
                    # every other intramolecular pair must be clearly non-bonded
                    for j, pj in enumerate(pts):
                        if j == parent:
                            continue
                        if _gdot(gram, (q - pj)[None, :])[0] * s2 < _clear(z, zs[j], tol) ** 2:
                            good = False
                    if not good:
                        break
                    pts.append(q)
                    zs.append(z)
                    bl.append((parent, k))
                if good:
                    placed = True
                    break
            if not placed:
                ok = False
                break
            base = len(asym)
            mols.append([base + i + 1 for i in range(len(pts))])
            for a, b in bl:
                bonds.append([base + a + 1, base + b + 1])
            for z, p in zip(zs, pts):
                asym.append({"z": z, "p": [int(x) for x in p], "occ": 12,
                             "label": "%s%d" % (SYMBOLS[z], len(asym) + 1)})
        if not ok:
            continue
        # all images, general positions
        allpts = {}
        for si, s in enumerate(asym):
            for c in ops:
                q = apply_grid(c, s["p"], n)
                if q in allpts:
                    ok = False
                    break
                allpts[q] = si
            if not ok:
                break
        if not ok:
            continue
        uc = np.array(list(allpts.keys()), dtype=np.int64)
        cells = np.array([(a, b, c) for a in (-2, -1, 0, 1, 2) for b in (-2, -1, 0, 1, 2) for c in (-2, -1, 0, 1, 2)],
                         dtype=np.int64) * n
        bonded = {(a, b) for a, b in bonds} | {(b, a) for a, b in bonds}
        for si, s in enumerate(asym):
            pa = np.array(s["p"], dtype=np.int64)
            base = (pa // n) * n
            diff = (uc[:, None, :] + cells[None, :, :] + base[None, None, :]) - pa[None, None, :]
            dd = _gdot(gram, diff) * s2
            close = np.argwhere(dd < ((3.5 if halogens else 2.2) + max(0.0, tol - 0.4)) ** 2)
            keys = list(allpts.keys())
            for bi, ci in close:
                if dd[bi, ci] >= _clear(s["z"], asym[allpts[keys[bi]]]["z"], tol) ** 2:
                    continue
                q = uc[bi] + cells[ci] + base
                # allowed: the atom itself, or an intended bonded partner at its given (unwrapped) position
                match = [sj for sj, t in enumerate(asym) if tuple(t["p"]) == tuple(int(x) for x in q)]
                if match and (match[0] == si or (si + 1, match[0] + 1) in bonded):
                    continue
                ok = False
                break
            if not ok:
                break
        if not ok:
            continue
        # list the atoms in a random order (molecules interleaved, children before parents, ...)
        perm = list(range(len(asym)))
        rng.shuffle(perm)                      # new position i holds old atom perm[i]
        newidx = {old + 1: i + 1 for i, old in enumerate(perm)}
        asym = [dict(asym[old]) for old in perm]
        for i, s in enumerate(asym):
            s["label"] = "%s%d" % (SYMBOLS[s["z"]], i + 1)
        mols = [sorted(newidx[a] for a in m) for m in mols]
        bonds = [[newidx[a], newidx[b]] for a, b in bonds]
        # the scale is a multiple of 1e-6 A^2 exactly (u2m), so that TLC can certify thresholds in grid units
        u2m = int(round(u * u * 1e6))
        if not (0 < u2m < 2 ** 31):
            continue
        return {"number": row["number"], "choice": row["choice"], "n": n, "gram": gram, "u": math.sqrt(u2m / 1e6), "u2m": u2m,
                "asym": asym, "mols": mols, "bonds": bonds, "route": "params", "bond_tolerance": tol}
    return None


def bond_table(rec, margin=0.08, tolerance=None):
    """Per element pair: [za, zb, lo, hi] in grid units^2 from covalent radii held independently of the library (COV above,
    certified by TLC against Molecules!CovRadius100): bonded iff Dist2N <= lo; the domain guard demands that no pair distance
    lies in (lo, hi]."""
    n, u = rec["n"], rec["u"]
    if tolerance is None:
        tolerance = rec.get("bond_tolerance", 0.4)
    zs = sorted({s["z"] for s in rec["asym"]})
    out = []
    for a in zs:
        for b in zs:
            thr = COV[a] + COV[b] + tolerance
            lo = int(math.floor(((thr - margin) ** 2) * n * n / (u * u)))
            hi = int(math.ceil(((thr + margin) ** 2) * n * n / (u * u)))
            out.append([a, b, lo, hi])
    return out


def mass_table(rec):
    zs = sorted({s["z"] for s in rec["asym"]})
    return [[z, int(round(MASS_Z[z] * 1000))] for z in zs]
