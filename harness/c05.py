"""C05 - promolecule density is a sum of spherical atoms; stockholder weights are shares.

(M) MC_Promolecule: the module's lookup / interpolation / accumulation / weight operators on small
    integer tables, every atom order and every cube rotation + translation of four configurations:
    order and motion invariance, additivity, positivity, weight identities (design level).
(T) evaluation contexts built on the integer grid 1/1024 A (float32-exact), rigid motions from
    integer quaternions (moved coordinates stay on the grid), executed against the real
    PromoleculeDensity / StockholderWeight objects -> Trace_Promolecule.  The density table is
    read here with numpy.load, independently of density.py, and shipped per (atom, point) pair as
    the two bracketing rows + the interpolation parameter in 1/4096ths.
"""
import math
import os
import random

import numpy as np

from harness.common import REPO, main, pool_map
from harness import tlc

UNIT = 1024                       # grid units per angstrom
TDEN = 4096
BOHR = 0.5291772108               # the constant used by _density.pyx
MIN_R2 = 128451                   # (0.35 A)^2 in grid units, rounded up (the guard itself is TLC's)
RMAX = 11500                      # reference coordinates stay inside this ball (grid units)
WDEN = 1 << 24

MC_CFG = """SPECIFICATION Spec
CHECK_DEADLOCK FALSE
VIEW View
CONSTANTS
  TDen = 4
  MaxShift = %d
INVARIANT OrderIsPermutation
INVARIANT OrderAndMotionInvariant
INVARIANT Additive
INVARIANT Positive
INVARIANT LerpBetweenNodes
INVARIANT WeightIdentities
"""

_TABLE = None


def table():
    """(domain, rho) of interpolate/thakkar_interp.npz of the current tree as float64."""
    global _TABLE
    if _TABLE is None:
        d = np.load(os.path.join(REPO, "src/chmpy/interpolate/thakkar_interp.npz"))
        _TABLE = (d["domain"].astype(np.float64), d["rho"].astype(np.float64))
    return _TABLE


def lookup(z, r2_units):
    """The two table rows bracketing the squared distance (bohr^2) and the interpolation
    parameter between them: (j, t in [0,1], y_j, y_j+1) as floats.  Linear interpolation between
    the tabulated nodes; beyond the last node the last value."""
    dom, rho = table()
    x = r2_units / float(UNIT * UNIT) / (BOHR * BOHR)
    n = dom.shape[0]
    j = int(np.searchsorted(dom, x, side="right")) - 1
    if j >= n - 1:
        return n - 1, 0.0, float(rho[z - 1, n - 1]), float(rho[z - 1, n - 1])
    if j < 0:
        return 0, 0.0, float(rho[z - 1, 0]), float(rho[z - 1, 0])
    t = (x - dom[j]) / (dom[j + 1] - dom[j])
    return j, float(t), float(rho[z - 1, j]), float(rho[z - 1, j + 1])


# ------------------------------------------------------------------ exact rigid motions
def quat_matrix(q):
    """Integer numerators of the rotation matrix of quaternion q = (w, x, y, z); the matrix is
    M / |q|^2."""
    w, x, y, z = q
    return [[w * w + x * x - y * y - z * z, 2 * (x * y - w * z), 2 * (x * z + w * y)],
            [2 * (x * y + w * z), w * w - x * x + y * y - z * z, 2 * (y * z - w * x)],
            [2 * (x * z - w * y), 2 * (y * z + w * x), w * w - x * x - y * y + z * z]]


def move(v, pose):
    """pose = {"q": integer quaternion, "axes": signed axis permutation, "tr": translation}.
    Exact integer arithmetic; the coordinates are multiples of |q|^2 by construction."""
    q = pose["q"]
    nq = sum(c * c for c in q)
    m = quat_matrix(q)
    w = []
    for i in range(3):
        s = m[i][0] * v[0] + m[i][1] * v[1] + m[i][2] * v[2]
        if s % nq:
            raise ValueError("moved coordinate off the grid")       # harness bug, not an observation
        w.append(s // nq)
    out = []
    for i in range(3):
        ax = pose["axes"][i]
        c = w[abs(ax) - 1]
        out.append((-c if ax < 0 else c) + pose["tr"][i])
    return out


PROPER_AXES = [[1, 2, 3], [-2, 1, 3], [-1, -2, 3], [2, -1, 3], [1, -3, 2], [1, 3, -2], [3, 2, -1],
               [-3, 2, 1], [2, 3, 1], [3, 1, 2], [-1, 3, 2], [2, 1, -3], [-2, -1, -3], [3, -2, 1]]
QUATS = [[1, 0, 0, 0], [1, 2, 2, 0], [2, 1, 0, 2], [0, 2, 1, 2], [3, 4, 0, 0], [1, 2, 2, 4], [4, 2, 2, 1],
         [2, 3, 6, 0], [6, 2, 0, 3]]        # |q|^2 = 1, 9, 9, 9, 25, 25, 25, 49, 49


# ------------------------------------------------------------------ recipes (integers only)
def _lattice_vec(rng, r_units, nq):
    """A grid vector (multiples of nq) of length about r_units."""
    while True:
        g = [rng.gauss(0, 1) for _ in range(3)]
        nrm = math.sqrt(sum(c * c for c in g)) or 1.0
        v = [int(round(c / nrm * r_units / nq)) * nq for c in g]
        if any(v):
            return v


def _poses(rng, nq_q, npose):
    poses = [{"q": [1, 0, 0, 0], "axes": [1, 2, 3], "tr": [0, 0, 0]}]
    for _ in range(npose - 1):
        q = list(rng.choice([nq_q, [1, 0, 0, 0]] if rng.random() < 0.2 else [nq_q]))
        if rng.random() < 0.5:
            q = [q[0], -q[1], -q[2], -q[3]]                          # the inverse rotation
        poses.append({"q": q, "axes": list(rng.choice(PROPER_AXES)),
                      "tr": [rng.randint(-1400, 1400) for _ in range(3)]})
    return poses


def sweep_recipe(rng, z):
    """One atom of element z, 30 points at distances spanning the table, both ends included."""
    q = list(rng.choice(QUATS))
    nq = sum(c * c for c in q)
    at = [[rng.randint(-3, 3) * nq for _ in range(3)]]
    targets = [0.352, 0.36, 0.38, 0.42, 0.5, 0.62]
    targets += [0.75 * (10.4 / 0.75) ** (i / 17.0) for i in range(18)]
    targets += [10.55, 10.585, 10.62, 10.75, 10.9, 11.0]
    pts = []
    for r in targets:
        for _ in range(200):
            v = _lattice_vec(rng, r * UNIT, nq)
            r2 = sum(c * c for c in v)
            p = [at[0][i] + v[i] for i in range(3)]
            if r2 >= MIN_R2 and sum(c * c for c in p) <= RMAX * RMAX:
                pts.append(p)
                break
    poses = _poses(rng, q, 3)
    events = [["Eval", [1]], ["Move", 2], ["Eval", [1]], ["Move", 3], ["Eval", [1]], ["Move", 1],
              ["Eval", [1]]]
    return {"kind": "sweep", "z": [z], "at": at, "pt": pts, "poses": poses, "events": events}


def molecule_recipe(rng, natoms):
    q = list(rng.choice(QUATS))
    nq = sum(c * c for c in q)
    box = int((2.0 + 1.3 * natoms ** (1.0 / 3.0)) * UNIT)
    at = []
    while len(at) < natoms:
        p = [int(round(rng.uniform(-box, box) / nq)) * nq for _ in range(3)]
        if p not in at and sum(c * c for c in p) <= RMAX * RMAX:
            at.append(p)
    z = [rng.randint(1, 103) for _ in range(natoms)]
    npts = rng.randint(8, 20)
    pts = []
    tries = 0
    while len(pts) < npts and tries < 5000:
        tries += 1
        u = rng.random()
        if u < 0.5:
            a = rng.choice(at)
            v = _lattice_vec(rng, rng.uniform(0.36, 1.8) * UNIT, nq)
            p = [a[i] + v[i] for i in range(3)]
        elif u < 0.9:
            p = [int(round(rng.uniform(-box - 2 * UNIT, box + 2 * UNIT) / nq)) * nq for _ in range(3)]
        else:
            p = _lattice_vec(rng, rng.uniform(9.5, 10.7) * UNIT, nq)
        if sum(c * c for c in p) > RMAX * RMAX:
            continue
        if min(sum((p[i] - a[i]) ** 2 for i in range(3)) for a in at) < MIN_R2:
            continue
        pts.append(p)
    poses = _poses(rng, q, 3)
    ids = list(range(1, natoms + 1))

    def subset(lo=1):
        k = rng.randint(lo, natoms)
        return sorted(rng.sample(ids, k))

    events = [["Eval", [a]] for a in ids]
    events.append(["Eval", ids])
    prog = []
    for _ in range(rng.randint(10, 18)):
        u = rng.random()
        if u < 0.25:
            prog.append(["Eval", subset() if rng.random() < 0.6 else ids])
        elif u < 0.45:
            perm = ids[:]
            rng.shuffle(perm)
            prog.append(["Permute", perm])
        elif u < 0.6:
            prog.append(["Move", rng.randint(1, len(poses))])
            if natoms <= 8:                        # single atoms again, so that additivity is checked in this pose
                prog += [["Eval", [a]] for a in ids]
        elif u < 0.75 and natoms >= 2:
            s = subset(2)
            cut = rng.randint(1, len(s) - 1)
            rng.shuffle(s)
            prog.append(["Split", sorted(s[:cut]), sorted(s[cut:])])
        elif natoms >= 2:
            a = subset()
            if len(a) == natoms:
                a = a[:-1]
            rest = [i for i in ids if i not in a]
            b = rest if rng.random() < 0.7 else sorted(rng.sample(rest, rng.randint(1, len(rest))))
            bgnum = rng.choice([0, 0, 0, 1, 37, 1000, 21000, 400000])      # background = bgnum / 2^20
            prog.append(["Complement", a, b, bgnum, rng.choice(["ctor", "arrays"])])
        else:
            prog.append(["Eval", ids])
    if rng.random() < 0.5:
        # the empty atom set: no density at all; an isolated molecule has an empty exterior
        a = subset()
        prog.insert(rng.randrange(len(prog) + 1), ["Eval", []])
        prog.insert(rng.randrange(len(prog) + 1), ["Complement", a, [], rng.choice([0, 0, 37, 21000]), rng.choice(["ctor", "arrays"])])
    events += prog
    return {"kind": "molecule", "z": z, "at": at, "pt": pts, "poses": poses, "events": events}


def big_recipe(rng):
    """More than a thousand atoms, evaluated as two subsets that differ in one interior atom each (same size, same first and
    last atoms): whatever the library keeps per element assignment must distinguish them."""
    r = molecule_recipe(rng, 1101)
    ids = list(range(1, 1102))
    z = r["z"]
    a = 400
    b = next(i for i in range(600, 900) if z[i - 1] != z[a - 1])
    r["pt"] = r["pt"][:6]
    r["poses"] = r["poses"][:1]
    r["events"] = [["Eval", [i for i in ids if i != a]], ["Eval", [i for i in ids if i != b]], ["Eval", [i for i in ids if i != a]]]
    return r


# ------------------------------------------------------------------ driving the real code
def _f32(v):
    return float(np.float32(v))


def drive(recipe):
    if recipe.get("via_file") is True:
        d = tlc.scratch_dir("c05xyz")
        try:
            t = drive(dict(recipe, via_file=d))
            t["meta"]["recipe"] = recipe          # the scratch path is not part of the recipe (replay makes its own)
            return t
        finally:
            tlc.cleanup(d)
    from chmpy.interpolate.density import PromoleculeDensity, StockholderWeight
    z = recipe["z"]
    natoms = len(z)
    poses = [{"at": [move(v, g) for v in recipe["at"]], "pt": [move(v, g) for v in recipe["pt"]]}
             for g in recipe["poses"]]
    npts = len(recipe["pt"])
    # pair rows from the reference pose (exact integer squared distances)
    rows = [[lookup(z[a], sum((recipe["at"][a][i] - recipe["pt"][p][i]) ** 2 for i in range(3)))
             for p in range(npts)] for a in range(natoms)]
    order = list(range(1, natoms + 1))
    pose = 1
    raw = []                     # events with float results
    calls = []

    def coords(k, ids):
        return np.array([poses[k - 1]["at"][a - 1] for a in ids], dtype=np.float64).reshape(-1, 3) / UNIT

    def points(k):
        return np.array(poses[k - 1]["pt"], dtype=np.float64) / UNIT

    kept = {}

    def dens(S):
        ids = [a for a in order if a in S]
        if recipe.get("via_file") and ids:
            # the atoms reach the library through an .xyz file (PromoleculeDensity.from_xyz_file); the same path is rewritten for
            # every atom set of the program, element labels in the spellings files use (Cl, CL, cl7, CL12)
            from chmpy.core.element import Element
            xyz = coords(pose, ids)
            lines = [str(len(ids)), ("set %s" % (ids[:6],), "", "   ")[(len(ids) + ids[0]) % 3]]       # the title line may be blank
            for k, a in enumerate(ids):
                sym = Element.from_atomic_number(z[a - 1]).symbol
                lab = (sym, sym.upper(), sym.lower() + str(k + 1), sym.upper() + str(10 * k + 3))[(k + len(ids) + a) % 4]
                # files of other programs carry further per-atom columns after x, y, z (a charge, a force vector)
                more = ("", " %.4f" % (0.1 * k - 0.3), " 0.25 -1.5 3.0", "")[(len(ids) + ids[0]) % 4]
                # numbers as other programs print them: shortest repr, or exponent notation (1.25000000e+00, 4.2e-05)
                fm = ("%r", "%.10e", "%r", "%.12E")[(len(ids) + 3 * ids[0]) % 4]
                lines.append("%s %s %s %s%s" % (lab, fm % float(xyz[k][0]), fm % float(xyz[k][1]), fm % float(xyz[k][2]), more))
            path = os.path.join(recipe["via_file"], "atoms.xyz")
            with open(path, "w") as fh:
                fh.write("\n".join(lines) + "\n")
            return PromoleculeDensity.from_xyz_file(path)
        if recipe.get("inplace"):
            # one density object per (ordered) atom set, kept for the whole program: when the atoms move, the caller moves them
            # in place through the object's own positions array
            key = tuple(ids)
            if key in kept:
                obj = kept[key]
                obj.positions[:] = coords(pose, ids)
                return obj
            kept[key] = PromoleculeDensity((np.array([z[a - 1] for a in ids], dtype=int), coords(pose, ids)))
            return kept[key]
        return PromoleculeDensity((np.array([z[a - 1] for a in ids], dtype=int), coords(pose, ids)))

    how = recipe.get("how") or ""

    def call(fn, P):
        """Evaluate fn at the points P the way the recipe says: in one call, in batches of k points (a value depends only on
        its point, not on how many points travel with it), or through one buffer array that is refilled in place between two
        calls on the same object while the first result is scribbled on (nothing may be remembered by array identity).
        Returns (values, argument_was_modified)."""
        if how.startswith("chunks"):
            k = int(how[6:])
            parts, mut = [], False
            for i in range(0, len(P), k):
                arg = P[i:i + k].copy()
                parts.append(np.asarray(fn(arg), dtype=np.float64).reshape(-1))
                mut |= not np.array_equal(arg, P[i:i + k])
            return np.concatenate(parts), mut
        if how == "reuse":
            buf = np.ascontiguousarray(P[::-1] * 0.75 + 0.3)
            first = fn(buf)
            try:
                first *= 100.0
            except Exception:
                pass
            buf[:] = P
            out = np.array(fn(buf), dtype=np.float64)
            return out, not np.array_equal(buf, P)
        arg = P.copy()
        out = np.asarray(fn(arg), dtype=np.float64)
        return out, not np.array_equal(arg, P)

    for ev in recipe["events"]:
        kind = ev[0]
        rec = {"ev": kind, "exc": "", "f": {}, "argmut": False}
        try:
            if kind == "Eval":
                rec["set"] = ev[1]
                P = points(pose)
                if recipe.get("embed"):
                    # the same points evaluated as the tail of one large call (cyclic copies as filler): a value must depend
                    # only on its point and the atoms, not on the size of the batch it is evaluated in
                    nb = int(recipe["embed"])
                    bigp = np.tile(P, (-(-nb // len(P)), 1))[:nb].copy()
                    bigp[-len(P):] = P
                    rec["f"]["obs"] = np.asarray(dens(set(ev[1])).rho(bigp), dtype=np.float64)[-len(P):]
                else:
                    rec["f"]["obs"], rec["argmut"] = call(dens(set(ev[1])).rho, P)
                calls.append("PromoleculeDensity((Z%s, pos)).rho(pts)" % (ev[1] if len(ev[1]) < 5 else "[%d atoms]" % len(ev[1])))
            elif kind == "Permute":
                rec["perm"] = ev[1]
                order = list(ev[1])
            elif kind == "Move":
                rec["pose"] = ev[1]
                pose = ev[1]
            elif kind == "Split":
                rec["s1"], rec["s2"] = ev[1], ev[2]
                pts = points(pose)
                rec["f"]["o1"] = np.asarray(dens(set(ev[1])).rho(pts), dtype=np.float64)
                rec["f"]["o2"] = np.asarray(dens(set(ev[2])).rho(pts), dtype=np.float64)
                rec["f"]["o12"] = np.asarray(dens(set(ev[1]) | set(ev[2])).rho(pts), dtype=np.float64)
            elif kind == "Complement":
                rec["a"], rec["b"], rec["route"] = ev[1], ev[2], ev[4]
                bg = ev[3] / float(1 << 20)
                rec["bgf"] = _f32(bg)
                pts = points(pose)
                kw = {} if ev[3] == 0 else {"background": bg}

                def weight(A, B):
                    ia = [a for a in order if a in A]
                    ib = [a for a in order if a in B]
                    za, zb = np.array([z[a - 1] for a in ia], dtype=int), np.array([z[a - 1] for a in ib], dtype=int)
                    if ev[4] == "arrays":
                        sw = StockholderWeight.from_arrays(za, coords(pose, ia), zb, coords(pose, ib), **kw)
                    else:
                        sw = StockholderWeight(PromoleculeDensity((za, coords(pose, ia))),
                                               PromoleculeDensity((zb, coords(pose, ib))), **kw)
                    w, mut = call(sw.weights, pts)
                    rec["argmut"] = bool(rec["argmut"] or mut)
                    return w
                rec["f"]["wab"] = weight(set(ev[1]), set(ev[2]))
                rec["f"]["wba"] = weight(set(ev[2]), set(ev[1]))
                calls.append("StockholderWeight%s(...).weights(pts)" % (".from_arrays" if ev[4] == "arrays" else ""))
            else:
                raise ValueError(kind)
        except Exception as e:                     # an exception of the implementation is an observation
            if kind in ("Permute", "Move"):
                raise                              # no implementation call here: harness bug
            rec["exc"] = type(e).__name__
        raw.append(rec)

    # ---- projection: one power-of-two scale per point -------------------------------------
    big = [0.0] * npts
    for p in range(npts):
        m = sum(rows[a][p][2] for a in range(natoms))
        for rec in raw:
            for name, arr in rec["f"].items():
                if name in ("wab", "wba"):
                    continue
                if arr.ndim == 1 and arr.shape[0] == npts and math.isfinite(arr[p]):
                    m = max(m, abs(float(arr[p])))
            if rec["ev"] == "Complement":
                m = max(m, rec.get("bgf", 0.0))
        big[p] = m
    exps = []
    for p in range(npts):
        mant, e = math.frexp(big[p]) if big[p] > 0 else (0.0, 0)
        exps.append(24 - e)                        # big * 2^exp in [2^23, 2^24)

    def scaled(v, p):
        return int(round(math.ldexp(v, exps[p])))

    def project(arr):
        """float array (one value per point) -> ints at the point scales, signs, offgrid flag."""
        if arr.ndim != 1 or arr.shape[0] != npts:
            flat = np.ravel(arr)
            return [0] * int(flat.shape[0]), [0] * int(flat.shape[0]), False
        off = False
        vals, sgn = [], []
        for p in range(npts):
            v = float(arr[p])
            if not math.isfinite(v):
                off = True
                vals.append(0)
                sgn.append(0)
            else:
                vals.append(scaled(v, p))
                sgn.append((v > 0) - (v < 0))
        return vals, sgn, off

    def project_w(arr):
        flat = np.ravel(arr)
        off = False
        vals = []
        for v in flat:
            v = float(v)
            if not math.isfinite(v):
                off = True
                vals.append(0)
            else:
                vals.append(int(round(min(max(v, -4.0), 4.0) * WDEN)))
        return vals, off

    pair = [[[rows[a][p][0], int(round(rows[a][p][1] * TDEN)), scaled(rows[a][p][2], p), scaled(rows[a][p][3], p)]
             for p in range(npts)] for a in range(natoms)]
    events = []
    for rec in raw:
        e = {k: v for k, v in rec.items() if k not in ("f", "bgf")}
        f = rec["f"]
        if rec["ev"] == "Eval":
            e["obs"], e["sgn"], e["off"] = project(f["obs"]) if "obs" in f else ([], [], False)
        elif rec["ev"] == "Split":
            off = False
            sg = [1] * npts
            for name in ("o1", "o2", "o12"):
                if name in f:
                    e[name], s, o = project(f[name])
                    off = off or o
                    sg = [min(x, y) for x, y in zip(sg, s)] if len(s) == npts else s
                else:
                    e[name] = []
            e["sgn"], e["off"] = sg, off
        elif rec["ev"] == "Complement":
            e["bg"] = [scaled(rec.get("bgf", 0.0), p) for p in range(npts)]
            off = False
            for name in ("wab", "wba"):
                if name in f:
                    e[name], o = project_w(f[name])
                    off = off or o
                else:
                    e[name] = []
            e["off"] = off
        events.append(e)
    return {"unit": UNIT, "z": z, "poses": poses, "pair": pair, "exps": exps, "events": events,
            "meta": {"recipe": recipe, "source": "seeded-" + recipe["kind"],
                     "impl_call": "; ".join(calls[:4]) + (" ..." if len(calls) > 4 else ""),
                     "nontrivial": natoms > 1 or len(recipe["pt"]) >= 20}}


# ------------------------------------------------------------------ the check
def _recipes(ctx):
    rng = random.Random(ctx.seed * 104729 + 5)
    if ctx.quick:
        els = sorted(set([1, 103] + rng.sample(range(2, 103), 10)))
    else:
        els = list(range(1, 104))
    recipes = [sweep_recipe(rng, z) for z in els for _ in range(ctx.pick(2, 5))]
    sizes = [1, 2, 3, 4, 5, 6, 8, 12, 20, 30, 40]
    for i in range(ctx.pick(100, 3000)):
        recipes.append(molecule_recipe(rng, sizes[i % len(sizes)] if i < 22 else rng.choice(sizes)))
    recipes.append(big_recipe(rng))
    # some programs evaluate their points inside one large call (35k-70k points)
    nemb = 0
    for r in recipes:
        if r["kind"] == "molecule" and nemb < ctx.pick(8, 80) and len(r["z"]) <= 12:
            r["embed"] = rng.choice([32769, 40000, 70001])
            nemb += 1
    # how the calls are made: whole arrays, batches of 1-7 points, or one buffer refilled in place between calls
    for r in recipes:
        if r.get("embed"):
            continue
        u = rng.random()
        if r["kind"] == "molecule" and rng.random() < 0.3:
            r["inplace"] = True
        elif r["kind"] == "molecule" and len(r["z"]) <= 12 and rng.random() < 0.3:
            r["via_file"] = True
        if u < 0.25:
            r["how"] = "chunks%d" % rng.randint(1, 7)
        elif u < 0.40:
            r["how"] = "reuse"
    return els, recipes


def drive_lerp(rec):
    """The Python reference interpolator (interpolate/lerp.py) on an integer table, exact arithmetic."""
    from chmpy.interpolate.lerp import vectorized_lerp
    t = dict(rec)
    t.update(exc="", off=False, obs4=[])
    t["meta"] = {"recipe": rec, "source": "seeded-lerp", "impl_call": "vectorized_lerp(xs, xp, yp%s%s)" % (
        ", l_fill" if rec["has_lfill"] else "", ", u_fill" if rec["has_ufill"] else ""), "nontrivial": True}
    try:
        xp = np.arange(rec["xp0"], rec["xp0"] + len(rec["yp"]), dtype=np.float64)
        kw = {}
        if rec["has_lfill"]:
            kw["l_fill"] = float(rec["lfill"])
        if rec["has_ufill"]:
            kw["u_fill"] = float(rec["ufill"])
        out = vectorized_lerp(np.array(rec["xs4"], dtype=np.float64) / 4.0, xp, np.array(rec["yp"], dtype=np.float64), **kw)
        for v in np.asarray(out, dtype=np.float64):
            k = int(round(float(v) * 4))
            t["off"] = t["off"] or abs(float(v) * 4 - k) > 1e-9 or not np.isfinite(v)
            t["obs4"].append(k)
    except Exception as e:
        t["exc"] = type(e).__name__
    return t


def table_trace():
    """Per-element summary of the tabulated densities of the current tree (judged by Trace_Lerp!TableVerdict)."""
    dom, rho = table()
    r = np.sqrt(dom)
    t = {"count1000": [], "mono": [], "pos": [],
         "meta": {"recipe": {}, "source": "thakkar_interp.npz", "impl_call": "np.load(thakkar_interp.npz)", "nontrivial": True}}
    for z in range(1, min(104, rho.shape[0] + 1)):
        y = rho[z - 1]
        f = 4.0 * math.pi * y * r * r
        n = float(np.sum((f[1:] + f[:-1]) / 2.0 * np.diff(r))) + 4.0 * math.pi * float(y[0]) * float(r[0]) ** 3 / 3.0
        t["count1000"].append(int(round(n * 1000)) if math.isfinite(n) and abs(n) < 1e6 else -1)
        t["mono"].append(bool(np.all(np.diff(y) <= 1e-12 * np.abs(y[:-1]))))
        t["pos"].append(bool(np.all(y > 0)))
    return t


def lerp_recipes(ctx):
    rng = random.Random(ctx.seed * 331 + 9)
    out = []
    for _ in range(ctx.pick(40, 600)):
        n = rng.randint(2, 12)
        xp0 = rng.randint(-5, 5)
        yp = [rng.randint(0, 1000) for _ in range(n)]
        lo4, hi4 = 4 * xp0, 4 * (xp0 + n - 1)
        # distances are never far below the first node (the table starts at r = 0); just below it is the lower fill
        xs4 = [lo4, hi4, lo4 - 1, hi4 + 1, hi4 + 40, lo4 - 3] + [rng.randint(lo4 - 3, hi4 + 12) for _ in range(12)]
        out.append({"xp0": xp0, "yp": yp, "xs4": xs4, "has_lfill": rng.random() < 0.4, "lfill": rng.choice([0, 0, rng.randint(0, 50)]),
                    "has_ufill": rng.random() < 0.4, "ufill": rng.choice([0, 0, rng.randint(0, 50)])})
    return out


def run(ctx, explain=False):
    shifts = ctx.pick(1, 3)
    ctx.model_check("mc/MC_Promolecule.tla", MC_CFG % shifts,
                    name="MC_Promolecule(4 configurations, all orders x %d motions)" % (24 * (2 * shifts + 1)), timeout=1200)
    els, recipes = _recipes(ctx)
    traces = pool_map(drive, recipes, chunksize=1)
    # density objects kept and moved in place through their own positions array: whether the kernel follows the public array is
    # a detail the listed property leaves open (it speaks of the atoms an object is built from) - judged beyond the property
    beyond = [t for t in traces if (t.get("meta", {}).get("recipe") or {}).get("inplace")]
    traces = [t for t in traces if not (t.get("meta", {}).get("recipe") or {}).get("inplace")]
    ctx.validate("trace/Trace_Promolecule.tla", traces, consts="  TDen = %d\n" % TDEN,
                 batch=ctx.pick(None, 500), timeout=1500)
    ctx.validate("trace/Trace_Promolecule.tla", beyond, consts="  TDen = %d\n" % TDEN, name="Trace_Promolecule (objects moved in place; extension)",
                 batch=ctx.pick(None, 500), timeout=1500, extension=True)
    ctx.validate("trace/Trace_Lerp.tla", pool_map(drive_lerp, lerp_recipes(ctx)) + [table_trace()], timeout=600)
    if ctx.ood:
        raise tlc.TLCFailure("constructed inputs were judged out of domain by TLC (%d): harness bug" % ctx.ood)
    ctx.exhaustive = False
    ctx.rule = ("%d element sweeps (one atom, 30 points from 0.35 A to beyond the table end, 3 poses) for Z in %s; "
                "%d seeded molecules of 1-40 atoms (Z uniform in 1..103), 8-20 points >= 0.35 A from every nucleus, "
                "programs of Eval / Permute / Move / Split / Complement events (some evaluating their points as the tail of one 33k-70k point call); non-trivial = more than one atom, "
                "or a full distance sweep" % (len([r for r in recipes if r["kind"] == "sweep"]),
                                              "1..103" if not ctx.quick else str(els),
                                              len([r for r in recipes if r["kind"] == "molecule"])))
    ctx.explanation = ("sampled: geometries, element assignments and event programs are seeded random; "
                       "elements are all 103 in the thorough tier")
    ctx.assumptions = [
        "the compiled kernel _density*.so is used as found; density.py is the only part that can change",
        "the table lookup (node index, interpolation parameter, rows) is done by the harness in float64 from "
        "thakkar_interp.npz read with numpy.load; TLC interpolates, sums, divides and compares",
        "only the batch path (rho / weights) is observable from Python; the single-point path of the radial "
        "root finder (upper fill 0.0 instead of the last value) is not exercised"]
    ctx.notes["slack"] = {"relative": "2e-5 (RelDen=50000)", "abscissa": "TSlack(j) = 1 + (j+1) div 128 units of 1/4096",
                          "accumulation": "k * 2^-22 + k + 2 units", "weights": "256 / 2^24",
                          "measured_noise": "rho vs float64 re-interpolation 5.8e-6 rel (3.8 t-units at the table end)"}


def replay(ctx, rec):
    t = drive(rec["record"]["meta"]["recipe"])
    ctx.validate("trace/Trace_Promolecule.tla", [t], consts="  TDen = %d\n" % TDEN)


if __name__ == "__main__":
    raise SystemExit(main("C05", run, replay))
