"""C18 - rigid alignment returns the optimal proper rotation.

(M) MC_Kabsch: the trace certificate (R^T H symmetric, tr(M) I - M positive semidefinite) implies
    optimality over a rational rotation net for every small integer covariance matrix, and the
    code's post-SVD steps (determinant correction, R = V W) on exact integer SVDs give a certified
    proper rotation.
(T) integer point sets related by exact rational rotations (integer quaternions), with / without
    integer noise and reflection, generic / planar / collinear; kabsch_rotation_matrix,
    reorient_points, rmsd_points and Dimer(..., transform_ab="calculate") -> Trace_Kabsch.
"""
import math
import random

from harness.common import main, pool_map
from harness import tlc

QBITS = 20
SCALE = 1 << QBITS
NET_MAX = 30

MC_CFG = """SPECIFICATION Spec
CHECK_DEADLOCK FALSE
CONSTANTS
  HMax = %d
  NetMax = %d
  SMax = %d
  Emit = %s
INVARIANT CertifiedIsOptimal
INVARIANT AlignedIsProper
INVARIANT AlignedIsCertified
INVARIANT AlignedIsOptimal
"""


# ----------------------------------------------------------------------------- exact helpers
def quat_rot(q):
    w, x, y, z = q
    return [[w * w + x * x - y * y - z * z, 2 * (x * y - w * z), 2 * (x * z + w * y)],
            [2 * (x * y + w * z), w * w - x * x + y * y - z * z, 2 * (y * z - w * x)],
            [2 * (x * z - w * y), 2 * (y * z + w * x), w * w - x * x - y * y + z * z]]


def qnorm(q):
    return sum(c * c for c in q)


def qconj(q):
    return [q[0], -q[1], -q[2], -q[3]]


def rotate_exact(A0, q):
    """B = (d A0) N / d = A0 N and A = d A0: both integer, B = A (N/d) exactly."""
    N = quat_rot(q)
    d = qnorm(q)
    A = [[d * c for c in p] for p in A0]
    B = [[sum(p[k] * N[k][j] for k in range(3)) for j in range(3)] for p in A0]
    return A, B


def rand_quat(rng, maxnorm=NET_MAX):
    while True:
        q = [rng.randint(-5, 5) for _ in range(4)]
        n = qnorm(q)
        if 0 < n <= maxnorm:
            return q


def base_points(rng, shape, n, lim):
    if shape == "generic":
        return [[rng.randint(-lim, lim) for _ in range(3)] for _ in range(n)]
    if shape == "planar":           # integer combinations of two integer vectors
        while True:
            u = [rng.randint(-2, 2) for _ in range(3)]
            v = [rng.randint(-2, 2) for _ in range(3)]
            cr = [u[1] * v[2] - u[2] * v[1], u[2] * v[0] - u[0] * v[2], u[0] * v[1] - u[1] * v[0]]
            if any(cr):
                break
        m = max(1, lim // 4)
        return [[a * u[k] + b * v[k] for k in range(3)]
                for a, b in ((rng.randint(-m, m), rng.randint(-m, m)) for _ in range(n))]
    if shape == "collinear":
        while True:
            u = [rng.randint(-2, 2) for _ in range(3)]
            if any(u):
                break
        m = max(1, lim // 2)
        return [[rng.randint(-m, m) * c for c in u] for _ in range(n)]
    raise ValueError(shape)


def make_points_recipe(rng, shape, relation, n=None):
    """relation: rotated | mirrored | noisy | noisy-mirrored | unrelated"""
    n = n or rng.choice([3, 3, 4, 5, 6, 8, 12, 20, 35, 50])
    q = rand_quat(rng)
    d = qnorm(q)
    lim = max(1, min(6, 60 // d))
    for _ in range(100):
        A0 = base_points(rng, shape, n, lim)
        if any(any(p) for p in A0):
            break
    A, B = rotate_exact(A0, q)
    mirror = relation in ("mirrored", "noisy-mirrored")
    if mirror:
        B = [[p[0], p[1], -p[2]] for p in B]
    declared = q
    if relation in ("noisy", "noisy-mirrored"):
        amp = rng.choice([1, 1, 2, max(1, d // 3)])
        B = [[c + rng.randint(-amp, amp) for c in p] for p in B]
        declared = [0, 0, 0, 0]
    if relation == "unrelated":
        B = [[rng.randint(-lim * d, lim * d) for _ in range(3)] for _ in range(n)]
        declared = [0, 0, 0, 0]
        mirror = False
    return {"kind": "points", "A": A, "B": B, "q": declared, "mirror": mirror,
            "shape": shape, "relation": relation, "as": rng.choice(["float", "float", "int", "list", "f32"])}


def make_dimer_recipe(rng, relation):
    n = rng.randint(3, 10)
    shape = rng.choice(["generic", "generic", "planar"])
    while True:
        q = rand_quat(rng, 9)
        d = qnorm(q)
        if d in (1, 2, 3, 4, 9):
            break
    lim = max(1, 6 // d)
    mirror = relation == "mirrored"
    while True:                              # keep |coordinates| <= 19 (+1 noise) so that the centred sets stay small
        pa0 = base_points(rng, shape, n, lim if shape == "generic" else 4)
        pa, pb = rotate_exact(pa0, q)        # pb = pa Q (row vectors)
        if mirror:
            pb = [[p[0], p[1], -p[2]] for p in pb]
        shift = [rng.randint(-3, 3) for _ in range(3)]
        pb = [[p[k] + shift[k] for k in range(3)] for p in pb]
        if max(abs(c) for p in pa + pb for c in p) <= 19 and any(any(p) for p in pa0):
            break
    declared = qconj(q)                      # the code aligns centred b onto centred a: a_c = b_c Q^-1
    if relation == "noisy":
        pb = [[c + rng.randint(-1, 1) for c in p] for p in pb]
        declared = [0, 0, 0, 0]
    if mirror:
        # b_c = a_c Q S (S the mirror)  =>  a_c = b_c S Q^-1; not of the declared form, so no claim
        declared = [0, 0, 0, 0]
        mirror = False
    z = [rng.choice([1, 6, 7, 8]) for _ in range(n)]
    rec = {"kind": "dimer", "A": pa, "B": pb, "q": declared, "mirror": mirror, "z": z,
           "shape": shape, "relation": relation}
    if rng.random() < 0.5:
        rec["used_before"] = rng.choice([[[0, 1, 0], [-1, 0, 0], [0, 0, 1]], [[1, 0, 0], [0, 0, 1], [0, -1, 0]],
                                         [[0, 0, 1], [1, 0, 0], [0, 1, 0]], [[-1, 0, 0], [0, -1, 0], [0, 0, 1]]])
    return rec


# ----------------------------------------------------------------------------- driver
def _qi(x):
    return int(round(float(x) * SCALE))


def drive(recipe):
    import numpy as np
    from chmpy.util.num import kabsch_rotation_matrix, reorient_points, rmsd_points
    A = np.array(recipe["A"], dtype=float)
    B = np.array(recipe["B"], dtype=float)
    t = {"kind": recipe["kind"], "A": recipe["A"], "B": recipe["B"], "q": recipe["q"],
         "mirror": bool(recipe["mirror"]), "exc": "", "finite": True,
         "R": [[0] * 3] * 3, "AR": [], "rmsd": 0, "rmsd_alt": [],
         "meta": {"recipe": recipe, "source": "%s/%s/%s" % (recipe["kind"], recipe["shape"], recipe["relation"]),
                  "impl_call": "", "nontrivial": recipe["relation"] != "rotated" or recipe["shape"] != "generic"}}
    try:
        if recipe["kind"] == "points":
            t["meta"]["impl_call"] = "kabsch_rotation_matrix(A, B); reorient_points(A, B); rmsd_points(A, B)"
            # the same points as float64 arrays, integer arrays, nested lists of ints or float32 arrays
            how = recipe.get("as", "float")

            def arg(X):
                if how == "int":
                    return np.array(recipe["A" if X is A else "B"], dtype=np.int64)
                if how == "list":
                    return [list(map(int, p)) for p in recipe["A" if X is A else "B"]]
                if how == "f32":
                    return X.astype(np.float32)
                return X.copy()
            # a change of length unit by an exact power of two (coordinates in nm, cm, m ...): the optimal rotation does not
            # depend on it, reoriented points and RMSD scale with it
            sc = math.ldexp(1.0, int(recipe.get("scale2", 0))) if how in ("float", "f32") else 1.0
            if sc != 1.0:
                A, B = A * sc, B * sc
            a1, b1 = arg(A), arg(B)
            kabsch_rotation_matrix(a1, b1), reorient_points(a1, b1), rmsd_points(a1, b1)
            if not (np.array_equal(np.asarray(a1, dtype=float), A) and np.array_equal(np.asarray(b1, dtype=float), B)):
                t["exc"] = "ArgumentMutated"          # the caller's point sets must come back untouched
                return t
            R = np.asarray(kabsch_rotation_matrix(arg(A), arg(B)), dtype=float)
            AR = np.asarray(reorient_points(arg(A), arg(B)), dtype=float)
            rm = float(rmsd_points(arg(A), arg(B)))
            if not (np.all(np.isfinite(R)) and np.all(np.isfinite(AR)) and math.isfinite(rm)):
                t["finite"] = False
                return t
            if R.shape != (3, 3) or AR.shape != A.shape:
                t["exc"] = "shape"
                return t
            t["AR"] = [[_qi(x / sc) for x in row] for row in AR]
            t["rmsd"] = _qi(rm / sc)
            # an explicit request for reorientation in any other spelling is either honoured or refused - never silently ignored
            t["rmsd_alt"] = []
            for flag in (True, 1, "kabsch", "Kabsch", "quaternion"):
                alt = {"flag": repr(flag), "exc": "", "v": 0}
                try:
                    v = float(rmsd_points(arg(A), arg(B), reorient=flag)) / sc
                    alt["v"] = _qi(v) if math.isfinite(v) and abs(v) < 1e6 else -1
                except Exception as e:
                    alt["exc"] = type(e).__name__
                t["rmsd_alt"].append(alt)
        else:
            from chmpy.core import Molecule
            from chmpy.core.dimer import Dimer
            t["meta"]["impl_call"] = "Dimer(Molecule.from_arrays(z, A), Molecule.from_arrays(z, B), transform_ab='calculate').transform_ab"
            z = np.array(recipe["z"])
            if recipe.get("used_before"):
                # the two molecule objects were used (centroid, distances, an earlier dimer) at another orientation and then
                # rotated in place by a quarter turn about the origin (exact in floating point) into the position judged
                P = np.array(recipe["used_before"], dtype=float)
                ma = Molecule.from_arrays(z, A @ P.T)
                mb = Molecule.from_arrays(z, B @ P.T)
                _ = (ma.centroid, mb.centroid, ma.center_of_mass, mb.center_of_mass, ma.distance_to(mb))
                old = Dimer(ma, mb, transform_ab="calculate")
                ma.rotate(P)
                mb.rotate(P)
                if not (np.array_equal(ma.positions, A) and np.array_equal(mb.positions, B)):
                    t["exc"] = "RotateInPlace"
                    return t
                if sum(recipe["z"]) % 2:
                    # the transform asked again of the SAME dimer object after its molecules were moved
                    old.calculate_transform()
                    tr = old.transform_ab
                    if tr is None:
                        t["exc"] = "NoTransform"
                        return t
                    R = np.asarray(tr[0], dtype=float)
                    if R.shape != (3, 3) or not np.all(np.isfinite(R)):
                        t["exc"] = "shape"
                        return t
                    t["R"] = [[_qi(x) for x in row] for row in R]
                    return t
            else:
                ma = Molecule.from_arrays(z, A.copy())
                mb = Molecule.from_arrays(z, B.copy())
            if recipe.get("crystal_props"):
                # two different molecules of one asymmetric unit (Z' = 2, or a P1 description): both are generated by the
                # identity operation, which says nothing about how they are oriented relative to each other
                for k, m in enumerate((ma, mb)):
                    m.properties["generator_symop"] = np.full(len(z), 16484)
                    m.properties["asym_mol_idx"] = k
                    m.properties["asymmetric_unit_atoms"] = np.arange(len(z)) + k * len(z)
            if recipe.get("crystal_props"):
                # as Crystal.symmetry_unique_dimers builds them: with the lattice shift of the second molecule
                dim = Dimer(ma, mb, transform_ab="calculate", frac_shift=np.array([1.0, 0.0, -1.0]))
            else:
                dim = Dimer(ma, mb, transform_ab="calculate")
            tr = dim.transform_ab
            if tr is None:
                t["exc"] = "NoTransform"
                return t
            R = np.asarray(tr[0], dtype=float)
            if R.shape != (3, 3):
                t["exc"] = "shape"
                return t
            if not np.all(np.isfinite(R)):
                t["finite"] = False
                return t
        t["R"] = [[_qi(x) for x in row] for row in R]
    except ImportError:
        raise
    except Exception as e:              # an exception of the implementation is an observation
        t["exc"] = type(e).__name__
    return t


# ---------------------------------------------------------------- Molecule objects under rigid motions (extension: MoleculeObject.tla)
MO_CFG = """SPECIFICATION Spec
CHECK_DEADLOCK FALSE
CONSTANTS
  Depth = %d
  MaxObjs = 2
  Emit = %s
INVARIANT RotsProper
INVARIANT ShapeKept
INVARIANT FormulaKept
INVARIANT MaskedFormula
INVARIANT QuarterTurns
INVARIANT CentroidCovariant
PROPERTY CopiesLeaveReceiver
%s
"""
MO_BASE = [[8, [0, 0, 1]], [1, [0, 6, -4]], [1, [0, -6, -4]], [6, [9, 2, 3]]]
MO_ROTS = [[[0, -1, 0], [1, 0, 0], [0, 0, 1]], [[1, 0, 0], [0, 0, -1], [0, 1, 0]], [[0, 0, 1], [1, 0, 0], [0, 1, 0]]]
MO_VECS = [[8, 0, 0], [-3, 5, 16]]
MO_ORGS = [[0, 0, 0], [4, -8, 1]]
MO_MASKS = [[True, True, False, True], [False, True, True, False]]
GRID = 8.0


def _mo_obs(m):
    import numpy as np
    pos = np.asarray(m.positions, dtype=float) * GRID
    off = bool(np.any(np.abs(pos - np.rint(pos)) > 1e-9))
    atoms = [{"z": int(z), "p": [int(x) for x in np.rint(row)]} for z, row in zip(m.atomic_numbers, pos)]
    return atoms, off


def _mo_derived(m):
    import numpy as np
    n = len(m)
    cen = np.asarray(m.centroid, dtype=float) * n * GRID
    lo, hi = m.bbox_corners
    lo, hi = np.asarray(lo, dtype=float) * GRID, np.asarray(hi, dtype=float) * GRID
    dm = np.asarray(m.distance_matrix, dtype=float)
    d2 = dm * dm * GRID * GRID
    off = bool(np.any(np.abs(cen - np.rint(cen)) > 1e-6) or np.any(np.abs(lo - np.rint(lo)) > 1e-9) or np.any(np.abs(hi - np.rint(hi)) > 1e-9)
               or np.any(np.abs(d2 - np.rint(d2)) > 1e-6))
    tri = float(np.trace(np.asarray(m.inertia_tensor(), dtype=float))) * 1024.0
    return {"cen": [int(x) for x in np.rint(cen)], "bmin": [int(x) for x in np.rint(lo)], "bmax": [int(x) for x in np.rint(hi)],
            "d2": [[int(x) for x in row] for row in np.rint(d2)], "formula": str(m.molecular_formula),
            "tri": int(round(tri)) if math.isfinite(tri) and abs(tri) < 2e9 else -1}, off


def drive_molobj(rec):
    """rec: {base: [[z, p]], events: [{op, obj, R?, o?, v?, keep?}]} -> trace for Trace_MoleculeObject."""
    import copy
    import numpy as np
    from chmpy.core import Molecule
    t = {"base": [{"z": z, "p": p} for z, p in rec["base"]], "exc": "", "tri0": 0, "events": [],
         "meta": {"recipe": rec, "source": rec.get("source", "random-history"), "nontrivial": True,
                  "impl_call": "Molecule.from_arrays(...) then " + ",".join(e["op"] for e in rec["events"])}}
    try:
        objs = {1: Molecule.from_arrays(np.array([z for z, _ in rec["base"]]), np.array([p for _, p in rec["base"]], dtype=float) / GRID)}
        t["tri0"] = _mo_derived(objs[1])[0]["tri"]
    except Exception as e:
        t["exc"] = type(e).__name__
        return t
    full = {1: True}
    for ev in rec["events"]:
        op, i = ev["op"], ev["obj"]
        e = {"op": op, "obj": i, "R": ev.get("R", [[1, 0, 0], [0, 1, 0], [0, 0, 1]]), "o": ev.get("o", [0, 0, 0]), "v": ev.get("v", [0, 0, 0]),
             "keep": ev.get("keep", []), "exc": "", "off": False, "tg": [], "recv": [], "others": [], "cen": [0, 0, 0], "bmin": [0, 0, 0],
             "bmax": [0, 0, 0], "d2": [], "formula": "", "tri": 0, "full": True, "bonds": [], "frags": []}
        t["events"].append(e)
        if i not in objs:
            break
        m = objs[i]
        try:
            R = np.array(ev.get("R", np.eye(3)), dtype=float)
            o = tuple(float(x) / GRID for x in ev.get("o", [0, 0, 0]))
            v = np.array(ev.get("v", [0, 0, 0]), dtype=float) / GRID
            tg = i
            if op == "b":
                m.guess_bonds()
                ub = m.unique_bonds or ()
                e["bonds"] = sorted([int(min(a_, b_)) + 1, int(max(a_, b_)) + 1] for a_, b_, _ in ub)
                pos_all = np.asarray(m.positions, dtype=float)
                frs = []
                for fr in m.connected_fragments():
                    idx = []
                    for p_ in np.asarray(fr.positions, dtype=float):
                        idx.append(int(np.argmin(np.sum((pos_all - p_) ** 2, axis=1))) + 1)
                    frs.append(sorted(idx))
                e["frags"] = sorted(frs)
            elif op == "t":
                m.translate(v)
            elif op == "r":
                m.rotate(R, origin=o)
            elif op == "x":
                m.transform(rotation=R, translation=v)
            else:
                tg = len(objs) + 1
                if op == "T":
                    new = m.translated(v)
                elif op == "R":
                    new = m.rotated(R, origin=o)
                elif op == "X":
                    new = m.transformed(rotation=R, translation=v)
                elif op == "C":
                    new = copy.deepcopy(m)
                else:
                    new = m.mask(np.array(ev["keep"], dtype=bool))
                objs[tg] = new
                full[tg] = full[i] and op != "M"
            e["full"] = bool(full[tg])
            e["tg"], off1 = _mo_obs(objs[tg])
            e["recv"], off2 = _mo_obs(objs[i])
            off3 = False
            for k, mk in objs.items():
                if k not in (tg, i):
                    a, o3 = _mo_obs(mk)
                    off3 |= o3
                    e["others"].append({"id": k, "atoms": a})
            d, off4 = _mo_derived(objs[tg])
            e.update(d)
            e["off"] = bool(off1 or off2 or off3 or off4)
        except Exception as ex:
            e["exc"] = type(ex).__name__
            break
    return t


def _signed_perm(rng):
    import itertools
    while True:
        perm = rng.sample(range(3), 3)
        R = [[0, 0, 0] for _ in range(3)]
        for r, c in enumerate(perm):
            R[r][c] = rng.choice([-1, 1])
        det = (R[0][0] * (R[1][1] * R[2][2] - R[1][2] * R[2][1]) - R[0][1] * (R[1][0] * R[2][2] - R[1][2] * R[2][0])
               + R[0][2] * (R[1][0] * R[2][1] - R[1][1] * R[2][0]))
        if det == 1:
            return R


def molobj_recipes(rng, words, count):
    out = []
    for w in words:                         # histories enumerated by TLC from MC_MoleculeObject (its own constants)
        evs = []
        for tok in w.split(","):
            i, op, *args = tok.split(":")
            ev = {"op": op, "obj": int(i)}
            a = [int(x) for x in args]
            if op in ("t", "T"):
                ev["v"] = MO_VECS[a[0] - 1]
            elif op in ("r", "R"):
                ev["R"], ev["o"] = MO_ROTS[a[0] - 1], MO_ORGS[a[1] - 1]
            elif op in ("x", "X"):
                ev["R"], ev["v"] = MO_ROTS[a[0] - 1], MO_VECS[a[1] - 1]
            elif op == "M":
                ev["keep"] = MO_MASKS[a[0] - 1]
            evs.append(ev)
        out.append({"base": MO_BASE, "events": evs, "source": "tlc-word"})
    for _ in range(count):                  # longer random histories on random molecules
        n = rng.randint(1, 9)
        pts = set()
        while len(pts) < n:
            if pts and rng.random() < 0.7:
                # next to an atom already placed, at about a bond length (8-12 units of 1/8 A)
                b0 = rng.choice(sorted(pts))
                pts.add(tuple(b0[k] + rng.randint(-9, 9) for k in range(3)))
            else:
                pts.add(tuple(rng.randint(-40, 40) for _ in range(3)))
        base = [[rng.choice([1, 1, 6, 6, 7, 8, 9, 16, 17]), list(p)] for p in pts]
        nobj, evs, sizes = 1, [], {1: n}
        for _ in range(rng.randint(1, 8)):
            i = rng.randint(1, nobj)
            op = rng.choice("trxTRXCMbb" if nobj < 4 else "trxb")
            ev = {"op": op, "obj": i}
            if op in "tTxX":
                ev["v"] = [rng.randint(-16, 16) for _ in range(3)]
            if op in "rRxX":
                ev["R"] = _signed_perm(rng)
            if op in "rR":
                ev["o"] = [0, 0, 0] if rng.random() < 0.3 else [rng.randint(-16, 16) for _ in range(3)]
            if op == "M":
                keep = [rng.random() < 0.6 for _ in range(sizes[i])]
                if not any(keep):
                    keep[rng.randrange(len(keep))] = True
                ev["keep"] = keep
            if op in "TRXCM":
                nobj += 1
                sizes[nobj] = sum(ev["keep"]) if op == "M" else sizes[i]
            evs.append(ev)
        out.append({"base": base, "events": evs})
    return out


def emitted_covariances(res):
    """Covariance matrices printed by MC_Kabsch (action Align with Emit): 'H|<<<<..>>, <<..>>, <<..>>>>'."""
    import re
    out = set()
    for line in res.printed:
        if line.startswith("H|"):
            v = [int(x) for x in re.findall(r"-?\d+", line[2:])]
            if len(v) == 9:
                out.add(tuple(v))
    return [[list(v[0:3]), list(v[3:6]), list(v[6:9])] for v in sorted(out)]


def make_recipes(ctx, emitted=()):
    rng = ctx.rng
    rec = []
    hs = list(emitted)
    kk = ctx.pick(40, 1500)
    if len(hs) > kk:
        hs = rng.sample(hs, kk)
    for H in hs:            # A = unit vectors, B = rows of H: A^T B = H exactly
        rec.append({"kind": "points", "A": [[1, 0, 0], [0, 1, 0], [0, 0, 1]], "B": H, "q": [0, 0, 0, 0],
                    "mirror": False, "shape": "tlc-svd", "relation": "enumerated"})
    k = ctx.pick(1, 30)
    plan = [("generic", "rotated", 40), ("generic", "mirrored", 40), ("generic", "noisy", 50),
            ("generic", "noisy-mirrored", 30), ("generic", "unrelated", 20),
            ("planar", "rotated", 25), ("planar", "mirrored", 25), ("planar", "noisy", 15),
            ("collinear", "rotated", 20), ("collinear", "mirrored", 10), ("collinear", "noisy", 10)]
    for shape, rel, cnt in plan:
        for _ in range(cnt * k):
            rec.append(make_points_recipe(rng, shape, rel))
    for rel, cnt in (("rotated", 20), ("mirrored", 10), ("noisy", 10)):
        for i in range(cnt * k):
            r = make_dimer_recipe(rng, rel)
            if i % 2 and not r.get("used_before"):
                r["crystal_props"] = True
            rec.append(r)
    # other length units
    for i, r in enumerate(rec):
        if r["kind"] == "points" and r.get("as", "float") in ("float", "f32") and i % 4 == 1:
            r["scale2"] = [-20, -27, -34, 20, -17][(i // 4) % 5] if r.get("as", "float") == "float" else [-10, 10][(i // 4) % 2]
    # smallest sizes and chiral tetrahedra (reflection branch decides)
    for _ in range(10 * k):
        rec.append(make_points_recipe(rng, "generic", "mirrored", n=4))
        rec.append(make_points_recipe(rng, "generic", "rotated", n=3))
    # outside the domain: two points only
    rec.append({"kind": "points", "A": [[1, 0, 0], [0, 1, 0]], "B": [[0, 1, 0], [1, 0, 0]], "q": [0, 0, 0, 0],
                "mirror": False, "shape": "generic", "relation": "out-of-domain"})
    return rec


CONSTS = "  NetMax = %d\n" % NET_MAX


def run(ctx):
    res = ctx.model_check("mc/MC_Kabsch.tla", MC_CFG % (1, 4, 2, "TRUE"),
                          name="MC_Kabsch(H in -1..1, net |q|^2<=4, s<=2)", timeout=900)
    emitted = emitted_covariances(res)
    if not emitted:
        raise tlc.TLCFailure("MC_Kabsch emitted no covariance matrix")
    if not ctx.quick:
        ctx.model_check("mc/MC_Kabsch.tla", MC_CFG % (1, 12, 3, "FALSE"),
                        name="MC_Kabsch(H in -1..1, net |q|^2<=12, s<=3)", timeout=1400)
    recipes = make_recipes(ctx, emitted)
    traces = pool_map(drive, recipes)
    ctx.validate("trace/Trace_Kabsch.tla", traces, consts=CONSTS, batch=4000, timeout=1200)
    # beyond the listed property: Molecule objects under rigid motions (MoleculeObject.tla) - the model, its histories replayed on
    # real objects, and longer random histories
    ctx.model_check("mc/MC_MoleculeObject.tla", MO_CFG % (ctx.pick(3, 4), "FALSE", ""), name="MC_MoleculeObject", extension=True, timeout=900)
    wres = tlc.run("mc/MC_MoleculeObject.tla", MO_CFG % (2, "TRUE", "CONSTRAINT EmitWord"), timeout=600, workers=4)
    ctx._account(wres, "MC_MoleculeObject(emit depth 2)")
    mo_words = sorted({x[2:] for x in wres.printed if x.startswith("W|")})
    if not wres.ok or not mo_words:
        raise tlc.TLCFailure("MC_MoleculeObject emitted no histories: %s %s" % (wres.violated, wres.errors))
    mo_traces = pool_map(drive_molobj, molobj_recipes(random.Random(ctx.seed * 97 + 18), mo_words, ctx.pick(300, 5000)))
    ctx.validate("trace/Trace_MoleculeObject.tla", mo_traces, name="Trace_MoleculeObject (extension)", extension=True, timeout=1200)
    ctx.rule = ("integer point sets A (3..50 points) and B = A Q for exact rational rotations Q from integer "
                "quaternions |q|^2 <= 30, optionally mirrored / with integer noise / unrelated; generic, planar "
                "and collinear; non-trivial = anything but a clean generic rotated copy (reflection, noise, "
                "rank-deficient sets, dimers)")
    ctx.explanation = "sampled inputs; the design-level model MC_Kabsch is exhaustive over its bounds"
    ctx.assumptions = [
        "the returned matrix is judged after quantisation to 2^-20; slack tau = 2^-13 (|A|^2+|B|^2)/2 covers the "
        "quantisation (worst case 7e-6 of that scale) and is far below the effect of a non-optimal rotation",
        "kabsch_rotation_matrix does not centre its arguments: optimality is demanded over rotations about the "
        "origin for the point sets as passed (Dimer passes centred sets; the spec centres them exactly)",
        "NoBetterInNet compares with a finite net of %d-bounded quaternion rotations; optimality over all of SO(3) "
        "is the exact trace certificate" % NET_MAX,
    ]
    ctx.notes["slack"] = "tau = 2^-13 * ((|A|^2+|B|^2) div 2 + 1); orthogonality / determinant 2^-17; superposition 2^-14 (1+|A_p|_1)"
    ctx.notes["cases"] = {}
    for r in recipes:
        key = "%s/%s/%s" % (r["kind"], r["shape"], r["relation"])
        ctx.notes["cases"][key] = ctx.notes["cases"].get(key, 0) + 1


def replay(ctx, rec):
    t = drive(rec["record"]["meta"]["recipe"])
    ctx.validate("trace/Trace_Kabsch.tla", [t], consts=CONSTS)


if __name__ == "__main__":
    raise SystemExit(main("C18", run, replay))
