"""Runs Apalache (bounded symbolic model checker) on a typed module under specs/apalache."""
import os
import shutil
import subprocess
import time

VERIF = os.path.dirname(os.path.dirname(os.path.abspath(__file__)))


def check(module, cinit, init, inv, length, timeout=900):
    """Returns (outcome, wall_s, tail) with outcome in {'ok', 'violated', 'failed'}."""
    out = os.path.join(VERIF, "out", "apa-%d-%d" % (os.getpid(), time.time_ns() % 10**9))
    cmd = ["timeout", str(timeout), "apalache-mc", "check", "--cinit=" + cinit, "--init=" + init, "--inv=" + inv,
           "--length=%d" % length, "--out-dir=" + out, module]
    t0 = time.time()
    p = subprocess.run(cmd, cwd=os.path.join(VERIF, "specs", "apalache"), text=True, stdout=subprocess.PIPE, stderr=subprocess.STDOUT)
    shutil.rmtree(out, ignore_errors=True)
    tail = p.stdout[-1500:]
    if "EXITCODE: OK" in p.stdout and "NoError" in p.stdout:
        return "ok", time.time() - t0, tail
    if "Checker has found an error" in p.stdout:
        return "violated", time.time() - t0, tail
    return "failed", time.time() - t0, tail
