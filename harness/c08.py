"""C08 - shape invariants computed from harmonic coefficients are rotation invariant.

(M) MC_Invariants: N2 / Power are invariant under the exact rotations RotZ4, FlipY and the group
    they generate (relations of the dihedral group of order 8), Hermitian symmetry is preserved,
    perturbing one degree leaves the N2 of the others unchanged, the triple loop of p_invariants_c
    equals the declarative selection rules, the quantised (BigInt) N2 equals the integer one.
    `--explain` shows TLC's counterexample for the as-built slice of make_N_invariants.
(T) Trace_Invariants on outputs of the real make_N_invariants, p_invariants_c, make_invariants and
    SHT.power_spectrum for exact Gaussian-integer vectors, their images under words in RotZ4/FlipY,
    single-degree perturbations / zeroings, and general rotations done numerically by this harness
    (scipy harmonics + least squares, independent of chmpy) and guarded by TLC.
"""
import math
import random

import numpy as np

from harness.common import main, pool_map
from harness import tlc
from harness.c07 import fx, idx_cplx, cplx_order, real_order

TRACE = "trace/Trace_Invariants.tla"
Q = float(1 << 40)

MC_CFG = """SPECIFICATION Spec
CHECK_DEADLOCK FALSE
CONSTANTS
  LMaxVec = %d
  NBlocks = 64
  UseAsBuilt = %s
INVARIANT NInvariant
INVARIANT HermitianKept
INVARIANT GroupRelations
INVARIANT PerturbLocal
INVARIANT TriplesOK
INVARIANT QuantisedSame
"""

WORDS = [[0], [0, 0], [0, 0, 0], [1], [0, 1], [0, 0, 1], [0, 0, 0, 1]]      # the 7 non-identity elements


# ------------------------------------------------------------------ exact side (inputs only)
def rot_z4(L, c):
    out = []
    for (l, m), (a, b) in zip(cplx_order(L), c):
        r = (-m) % 4
        out.append([[a, b], [-b, a], [-a, -b], [b, -a]][r])
    return out


def flip_y(L, c):
    out = []
    for (l, m) in cplx_order(L):
        a, b = c[idx_cplx(l, -m)]
        s = -1 if (l + m) & 1 else 1
        out.append([s * a, s * b])
    return out


def apply_word(L, c, w):
    for s in w:
        c = rot_z4(L, c) if s == 0 else flip_y(L, c)
    return c


def make_vector(L, spec):
    rng = random.Random(spec["seed"])
    hi = spec.get("hi", 9)
    order = cplx_order(L)
    c = [[0, 0] for _ in order]
    if spec["cls"] == "herm":                       # coefficients of a real-valued function
        for (l, m) in order:
            if m < 0:
                continue
            a, b = rng.randint(-hi, hi), (rng.randint(-hi, hi) if m else 0)
            if a == 0 and b == 0:
                a = 1
            c[idx_cplx(l, m)] = [a, b]
            if m:
                s = -1 if m & 1 else 1
                c[idx_cplx(l, -m)] = [s * a, -s * b]
    else:
        for k in range(len(order)):
            a, b = rng.randint(-hi, hi), rng.randint(-hi, hi)
            if a == 0 and b == 0:
                a = 1
            c[k] = [a, b]
    if spec.get("c00"):                             # a nearly spherical function: one huge degree-0 term
        c[0] = [int(spec["c00"]), 0]
    return c


def to_array(c):
    return np.array([complex(a, b) for a, b in c], dtype=np.complex128)


# ------------------------------------------------------------------ numerical rotation (independent of chmpy)
def ymat(L, th, ph):
    from scipy.special import sph_harm_y
    ls = np.array([l for l, m in cplx_order(L)])
    ms = np.array([m for l, m in cplx_order(L)])
    return sph_harm_y(ls[None, :], ms[None, :], th[:, None], ph[:, None])


def rotate_numeric(L, c, R):
    """coefficients of f'(x) = f(R^-1 x): sample f' at a Gauss-Legendre x equispaced point set with
    scipy harmonics and solve for the coefficients by least squares."""
    nt, nph = L + 2, 2 * L + 3
    x, _ = np.polynomial.legendre.leggauss(nt)
    th = np.repeat(np.arccos(x), nph)
    ph = np.tile(np.arange(nph) * 2 * np.pi / nph + 0.1, nt)
    pts = np.c_[np.sin(th) * np.cos(ph), np.sin(th) * np.sin(ph), np.cos(th)]
    q = pts @ R                                        # rows R^T p = R^-1 p
    thq = np.arccos(np.clip(q[:, 2], -1.0, 1.0))
    phq = np.arctan2(q[:, 1], q[:, 0])
    fv = ymat(L, thq, phq) @ to_array(c)
    cp, *_ = np.linalg.lstsq(ymat(L, th, ph), fv, rcond=None)
    return cp


def quantise(cp):
    """complex array -> (flat fixed point list, the exactly representable array fed to the code)."""
    flat, arr = [], np.empty(len(cp), dtype=np.complex128)
    for i, z in enumerate(cp):
        r, im = fx(z.real), fx(z.imag)
        flat.append(r + im)
        vr = (r[0] << 40) + (r[1] << 20) + r[2]
        vi = (im[0] << 40) + (im[1] << 20) + im[2]
        arr[i] = complex(vr / Q, vi / Q)               # exact: < 2^53 significant bits
    return flat, arr


# ------------------------------------------------------------------ observations
def observe(fn):
    o = {"exc": "", "off": False, "n": 0, "v": []}
    try:
        out = np.asarray(fn())
    except Exception as e:                            # an exception of the implementation is an observation
        o["exc"] = type(e).__name__
        return o
    out = out.reshape(-1)
    o["n"] = int(out.shape[0])
    if np.iscomplexobj(out):
        o["off"] = True
        return o
    for x in out:
        f = fx(x)
        if f is None:
            o["off"] = True
            f = [0, 0, 0]
        o["v"].append(f)
    return o


def api(what, L):
    from chmpy.shape.shape_descriptors import make_N_invariants
    from chmpy.shape._invariants import p_invariants_c
    from chmpy.shape.sht import SHT
    if what == "N":
        return lambda arr: make_N_invariants(arr)
    if what == "P":
        return lambda arr: p_invariants_c(arr)
    # the spectrum of a coefficient vector is a function of the vector: the transform object asked for it may have been made for
    # another band limit (vectors from another transform size, low-pass slices); the objects take turns
    shts = [SHT(L), SHT(L + 2), SHT(max(L - 1, 0)), SHT(L)]
    turn = [0]

    def power(arr):
        turn[0] += 1
        sht = shts[(turn[0] - 1) % len(shts)]
        # (the compact m >= 0 layout of a real function is recognised by its length relative to the object's own band limit:
        # only full-layout vectors can be handed to an object of another size)
        if L == 0 or arr.size != (L + 1) ** 2 or arr.size == sht.nplm():
            sht = shts[0]
        return sht.power_spectrum(arr)
    return power


def drive(recipe):
    """recipe: {what, L, vec: {cls, seed, hi}, seed, nrot, perturb: n}"""
    what, L = recipe["what"], recipe["L"]
    c = make_vector(L, recipe["vec"])
    rng = random.Random(recipe["seed"])
    t = {"what": what, "L": L, "c": c, "herm": False, "cr": [], "b": {"exc": "", "off": False, "n": 0, "v": []},
         "br": {"exc": "", "off": False, "n": 0, "v": []}, "events": [], "kinds": [],
         "meta": {"recipe": recipe, "source": "seeded-" + recipe["vec"]["cls"],
                  "impl_call": {"N": "make_N_invariants(c)", "P": "p_invariants_c(c)",
                                "Power": "SHT(L).power_spectrum(c)",
                                "Kinds": "make_invariants(L, c, kinds)"}[what] + " L=%d" % L,
                  "nontrivial": L >= 1}}
    arr = to_array(c)
    if what == "Kinds":
        from chmpy.shape.shape_descriptors import make_invariants, make_N_invariants
        from chmpy.shape._invariants import p_invariants_c
        cap = arr if L <= 23 else arr[:23 * 23]
        t["kinds"] = [observe(lambda: make_invariants(L, arr, kinds="N")),
                      observe(lambda: make_invariants(L, arr, kinds="P")),
                      observe(lambda: make_invariants(L, arr, kinds="NP")),
                      observe(lambda: make_invariants(L, arr)),
                      observe(lambda: make_N_invariants(arr)),
                      observe(lambda: p_invariants_c(np.ascontiguousarray(cap))),
                      # the same selection spelled in another order: number and ordering depend on l_max only
                      observe(lambda: make_invariants(L, arr, kinds="PN"))]
        return t
    f = api(what, L)
    t["b"] = observe(lambda: f(arr))
    if t["b"]["exc"] == "" and not np.array_equal(arr, to_array(c)):
        t["b"]["exc"] = "ArgumentMutated"             # the caller's coefficient array must come back untouched
    if what == "Power" and recipe["vec"]["cls"] == "herm" and L >= 1:
        t["herm"] = True
        t["cr"] = [c[idx_cplx(l, m)] for (l, m) in real_order(L)]
        t["br"] = observe(lambda: f(to_array(t["cr"])))

    def event(ev, **kw):
        e = {"ev": ev, "w": [], "l": 0, "c2": [], "cq": [], "o": None}
        e.update(kw)
        return e

    for w in recipe.get("words", WORDS):
        c2 = apply_word(L, c, w)
        a2 = to_array(c2)
        t["events"].append(event("Word", w=w, c2=c2, o=observe(lambda: f(a2))))
    if what == "N":
        for _ in range(recipe.get("perturb", 0)):
            l = rng.randint(0, L)
            c2 = [list(x) for x in c]
            lo = l * l
            # always touch the first coefficient of the degree (m = -l) and one more
            for k in {lo, lo + rng.randint(0, 2 * l)}:
                c2[k] = [c2[k][0] + rng.choice([-3, -2, 2, 3]), c2[k][1] + rng.choice([-2, -1, 1, 2])]
            a2 = to_array(c2)
            t["events"].append(event("Perturb", l=l, c2=c2, o=observe(lambda: f(a2))))
    if what == "P":
        for l in recipe.get("zero", []):
            c2 = [([0, 0] if l * l <= k < (l + 1) ** 2 else list(x)) for k, x in enumerate(c)]
            a2 = to_array(c2)
            t["events"].append(event("Zero", l=l, c2=c2, o=observe(lambda: f(a2))))
    from scipy.spatial.transform import Rotation
    for k in range(recipe.get("nrot", 0)):
        R = Rotation.random(random_state=recipe["rotseed"] + k).as_matrix()
        if recipe["vec"].get("c00"):
            # the degree-0 term is rotation invariant: rotate the rest numerically and put the huge term back exactly (the
            # rotated small coefficients are generic binary fractions next to a term 10^4 times larger)
            cp = rotate_numeric(L, [[0, 0]] + [list(x) for x in c[1:]], R)
            cp[0] = complex(c[0][0], c[0][1])
            flat, aq = quantise(cp)
            t["events"].append(event("Rotate", cq=flat, o=observe(lambda: f(aq))))
            continue
        flat, aq = quantise(rotate_numeric(L, c, R))
        t["events"].append(event("Rotate", cq=flat, o=observe(lambda: f(aq))))
    return t


# ------------------------------------------------------------------ recipes
def recipes_for(ctx):
    nvec = ctx.pick(2, 8)
    nrot = ctx.pick(1, 6)
    rs, sd = [], ctx.seed * 7919

    def nxt():
        nonlocal sd
        sd += 1
        return sd

    rng = random.Random(ctx.seed + 17)
    for L in range(1, 13):
        for cls in ("cplx", "herm"):
            for v in range(nvec):
                vec = {"cls": cls, "seed": nxt(), "hi": 9}
                rotseed = nxt() * 100
                extra = 1 if (ctx.quick and L == 12 and v == 0) else 0       # 48 + 2 = 50 rotations in the quick tier
                for what in ("N", "P", "Power"):
                    r = {"what": what, "L": L, "vec": vec, "seed": nxt(), "nrot": nrot + extra, "rotseed": rotseed}
                    if what == "N":
                        r["perturb"] = 4
                    if what == "P":
                        r["zero"] = sorted(rng.sample(range(1, L + 1), min(L, ctx.pick(3, 6))))
                    rs.append(r)
    # large dynamic range between degrees (|c_00| = 2e4..4.6e4 against coefficients of size 1-2): every N_l must still be exact
    for L in range(1, 13):
        for cls in ("cplx", "herm"):
            for v in range(ctx.pick(1, 3)):
                vec = {"cls": cls, "seed": nxt(), "hi": 1, "c00": rng.choice([33333, 46000])}
                rotseed = nxt() * 100
                for what in ("N", "Power"):
                    # power[0] = |c_00|^2 must stay below the fixed-point range 2^19 of the observations
                    r = {"what": what, "L": L, "vec": vec if what == "N" else dict(vec, c00=rng.choice([500, 700])),
                         "seed": nxt(), "nrot": 2, "rotseed": rotseed}
                    if what == "N":
                        r["perturb"] = 3
                    rs.append(r)
    for L in list(range(1, 13)) + [22, 23, 24, 25, 26]:
        for v in range(ctx.pick(1, 3)):
            rs.append({"what": "Kinds", "L": L, "vec": {"cls": "cplx" if v % 2 == 0 else "herm", "seed": nxt(), "hi": 9},
                       "seed": nxt()})
    # the degrees around the P cap, N and Power only (p_invariants_c is not callable above 23)
    for L in (22, 23):
        vec = {"cls": "cplx", "seed": nxt(), "hi": 9}
        rs.append({"what": "P", "L": L, "vec": vec, "seed": nxt(), "nrot": 0, "rotseed": 0, "words": [[0], [1]],
                   "zero": [L]})
    return rs


def run(ctx, explain=False):
    lv = ctx.pick(3, 4)
    ctx.model_check("mc/MC_Invariants.tla", MC_CFG % (lv, "FALSE"),
                    name="MC_Invariants(L<=%d vectors, L<=26 triples)" % lv, timeout=1200)
    if explain:
        res = tlc.run("mc/MC_Invariants.tla", MC_CFG % (2, "TRUE"), timeout=600)
        print("as-built slice coefficients[l^2 : (l+1)^2 + 1] in place of N2: TLC reports", res.violated)
        i = res.stdout.find("Error: Invariant")
        print(res.stdout[i:i + 1500])
    rs = recipes_for(ctx)
    traces = pool_map(drive, rs, chunksize=1)
    out = ctx.validate(TRACE, traces, timeout=1500, batch=600)
    ctx.notes["spec_drift"] = "%d accepted make_invariants traces with l_max > 23: P part computed for degree 22, not 23" % (
        sum(1 for v in out.values() if "drift=" in v))
    nrot = sum(r.get("nrot", 0) for r in rs if r["what"] == "N")
    ctx.exhaustive = False
    ctx.rule = ("l_max 1..12 x {generic complex, Hermitian (real function)} x %d seeded Gaussian-integer vectors; "
                "N, P and power spectrum of each vector, of its 7 images under the non-identity words of "
                "<RotZ4, FlipY>, of 4 single-degree perturbations (N), of single-degree zeroings (P) and of "
                "%d general rotations; make_invariants kinds/lengths for l_max 1..12 and 22..26 (cap); "
                "non-trivial = l_max >= 1" % (ctx.pick(2, 8), nrot))
    ctx.explanation = ("the group generated by RotZ4 and FlipY (order 8) and l_max 1..12 are enumerated; "
                       "coefficient values and general rotations are sampled (seeded)")
    ctx.assumptions = [
        "general rotations are computed by the harness (scipy.special.sph_harm_y samples + numpy lstsq), quantised to "
        "2^-40 and accepted by TLC only if every per-degree norm is preserved to 2^-28; the code receives exactly the "
        "quantised vector",
        "P values have no exact oracle (Clebsch-Gordan sums): compared on their cubes, slack 2^-30 |c_l2||c_l1||c_l| bound",
        "N: observed^2 against the exact integer N2, slack 2^-28; power: 2^-30; relational N/power: 2^-30 of the largest",
        "compiled kernel _invariants*.so used as found (cannot be rebuilt here)",
    ]
    ctx.notes["general_rotations"] = nrot
    ctx.notes["cap"] = "make_invariants slices coefficients[:23*23] for l_max > 23: effective P degree 22 (declared 23)"


def replay(ctx, rec):
    t = drive(rec["record"]["meta"]["recipe"])
    ctx.validate(TRACE, [t])


if __name__ == "__main__":
    raise SystemExit(main("C08", run, replay))
