"""C07 - the spherical harmonic transform is exact and invertible on band-limited functions.

(M) MC_SHT: layouts are bijections, the as-coded Complete / power-spectrum loops equal their
    declarative definitions, Complete is injective (left inverse), linear and power preserving,
    the as-coded grid-size rule is sufficient for every L in 0..64.
(T) one trace per (L, kind, coefficient vector, program): the real SHT object is driven through
    synthesis / analysis (compiled and pure Python, real and complex kernels), complete_coefficients,
    power_spectrum and evaluate_at_points; Trace_SHT advances the state <<func, tag>> of module SHT
    and states what every observation must be.  Reference harmonics come from
    scipy.special.sph_harm_y (independent of chmpy) as 2^-40 fixed point.

Python only drives the API, builds inputs and projects floats; every verdict is TLC's.
"""
import math
import random

import numpy as np

from harness.common import main, pool_map
from harness import tlc

TRACE = "trace/Trace_SHT.tla"
Q = 1 << 40
M20 = (1 << 20) - 1
QUICK_LS = list(range(0, 13)) + [16, 23, 32, 47]
FULL_GRID_MAX = 1100      # ship the whole grid when it has at most this many points
SUB_POINTS = 512          # else this many seeded points
SINGLE_POINTS = 48
NREF_SPARSE = 64          # reference points of sparse vectors (all other shipped points: route agreement)
NPROBE = 8                # reference points of dense vectors (6 above L = 16)

MC_CFG = """SPECIFICATION Spec
CHECK_DEADLOCK FALSE
CONSTANTS
  LMaxVec = %d
  NBlocks = 64
INVARIANT LayoutsOK
INVARIANT GridRuleOK
INVARIANT CompleteAlgOK
INVARIANT CompleteInverts
INVARIANT CompleteHermitian
INVARIANT CompletePower
INVARIANT PowerAlgOK
INVARIANT ParsevalInt
INVARIANT CompleteLinear
INVARIANT ValueRealIsCplx
INVARIANT TagsOK
"""


# ------------------------------------------------------------------ projection
def fx(x):
    """float -> (h2, h1, h0) with round(x*2^40) = h2*2^40 + h1*2^20 + h0; None when not shippable."""
    x = float(x)
    if not math.isfinite(x) or abs(x) >= 2.0 ** 19:
        return None
    v = int(round(x * Q))          # x * 2^40 is exact in binary floating point
    return [v >> 40, (v >> 20) & M20, v & M20]


def flat(values, cx):
    """1-d array -> list of flat fixed-point observations (+ offgrid flag)."""
    out, off = [], False
    for z in values:
        r = fx(z.real)
        i = fx(z.imag) if cx else None
        if r is None or (cx and i is None):
            off = True
            r, i = [0, 0, 0], [0, 0, 0]
        out.append(r + i if cx else r)
    return out, off


# ------------------------------------------------------------------ exact integer side (inputs only)
def idx_real(L, l, m):
    return m * (L + 1) - (m * (m - 1)) // 2 + (l - m)


def idx_cplx(l, m):
    return l * (l + 1) + m


def real_order(L):
    return [(l, m) for m in range(L + 1) for l in range(m, L + 1)]


def cplx_order(L):
    return [(l, m) for l in range(L + 1) for m in range(-l, l + 1)]


def native_order(L, kind):
    return real_order(L) if kind == "real" else cplx_order(L)


def to_array(vec):
    return np.array([complex(a, b) for a, b in vec], dtype=np.complex128)


def complete_py(L, vec):
    """the harness's own real -> complex embedding (used to build inputs only)."""
    out = [None] * ((L + 1) ** 2)
    for k, (l, m) in enumerate(real_order(L)):
        a, b = vec[k]
        out[idx_cplx(l, m)] = [a, b]
        if m:
            s = -1 if m & 1 else 1
            out[idx_cplx(l, -m)] = [s * a, -s * b]
    return out


def make_vector(L, kind, spec):
    """Gaussian-integer coefficient vector in the native layout of `kind` from a json spec."""
    order = native_order(L, kind)
    vec = [[0, 0] for _ in order]
    pos = {lm: k for k, lm in enumerate(order)}
    if spec["type"] == "dense":
        rng = random.Random(spec["seed"])
        hi = spec.get("hi", 9)
        for k, (l, m) in enumerate(order):
            a, b = rng.randint(-hi, hi), rng.randint(-hi, hi)
            if kind == "real" and m == 0:
                b = 0
            if a == 0 and b == 0:
                a = rng.choice([-1, 1])
            vec[k] = [a, b]
    elif spec["type"] == "ireal":
        # i times a real-valued function, held in the complex layout: c(l,-m) = -(-1)^m conj... built from a Hermitian vector
        rng = random.Random(spec["seed"])
        for (l, m) in order:
            if m < 0:
                continue
            a, b = rng.randint(-5, 5), (rng.randint(-5, 5) if m else 0)
            if a == 0 and b == 0:
                a = 1
            s = -1 if m & 1 else 1
            # real function: c(l,m) = a + ib, c(l,-m) = s (a - ib); times i: (-b + ia), s (b + ia)
            vec[pos[(l, m)]] = [-b, a]
            if m:
                vec[pos[(l, -m)]] = [s * b, s * a]
    else:                                   # explicit channels: [[l, m, re, im], ...]
        for l, m, a, b in spec["chan"]:
            vec[pos[(l, m)]] = [a, b]
    return vec


def sparse_spec(L, kind, rng, n):
    order = native_order(L, kind)
    picks = rng.sample(order, min(n, len(order)))
    ch = []
    for (l, m) in picks:
        a, b = rng.randint(-9, 9), rng.randint(-9, 9)
        if kind == "real" and m == 0:
            b = 0
        if a == 0 and b == 0:
            a = 1
        ch.append([l, m, a, b])
    return {"type": "sparse", "chan": ch}


# ------------------------------------------------------------------ scipy reference (independent of chmpy)
def ref_at_point(chan, theta, phi):
    from scipy.special import sph_harm_y
    l = np.array([c[0] for c in chan])
    m = np.array([c[1] for c in chan])
    y = sph_harm_y(l, m, float(theta), float(phi))
    out = []
    for z in np.atleast_1d(y):
        r, i = fx(z.real), fx(z.imag)
        out.append(r + i)
    return out


def reference_samples(L, kind, vec, theta, phi):
    """sum c_lm Y_lm on the tensor grid theta x phi from scipy harmonics.
    Y_lm(theta, phi) = Y_lm(theta, 0) e^{i m phi}; the factorisation is checked by TLC at the
    reference points, whose harmonics are direct sph_harm_y(l, m, theta, phi) calls."""
    from scipy.special import sph_harm_y
    order = native_order(L, kind)
    c = to_array(vec)
    nz = [k for k in range(len(order)) if vec[k] != [0, 0]]
    out = np.zeros((len(theta), len(phi)), dtype=np.complex128)
    if not nz:
        return out if kind == "cplx" else out.real
    ls = np.array([order[k][0] for k in nz])
    ms = np.array([order[k][1] for k in nz])
    Y0 = sph_harm_y(ls[:, None], ms[:, None], theta[None, :], 0.0)       # (nchan, ntheta)
    A = {}
    for j, k in enumerate(nz):
        m = order[k][1]
        A[m] = A.get(m, 0) + c[k] * Y0[j]
    for m, a in A.items():
        term = a[:, None] * np.exp(1j * m * phi)[None, :]
        if kind == "real":
            out += (term if m == 0 else 2 * term).real
        else:
            out += term
    return out.real.copy() if kind == "real" else out


# ------------------------------------------------------------------ programs
def program(kind, name, rng, L):
    """event list [(ev, arg...)] of the named program."""
    # L = 0: nplm == nlm == 1, the size test of synthesis / evaluate_at_points / power_spectrum always picks the
    # real path, so the complex layout of a real function is not exercised there (C07 quantifier: L = 0 real only)
    both = kind == "real" and L >= 1
    if name == "eval":
        return [("Load",), ("EvalAt",)] + ([("Complete",), ("EvalAt",)] if both else [])
    nat = "real" if kind == "real" else "cplx"
    if name == "mixed":
        # point-wise evaluation interleaved with compiled transforms on the SAME object: evaluation must not disturb
        # the state the transforms rely on (work arrays, cached tables)
        return [("Synthesis", False), ("Analysis", nat), ("Load",), ("EvalAt",), ("Synthesis", False), ("Analysis", nat),
                ("Load",), ("EvalAt",), ("Sample",), ("Analysis", nat)]
    if name == "single":
        return [("Sample",), ("Analysis", nat), ("Synthesis", False), ("Load",), ("SynthesisPP",),
                ("AnalysisPP", nat)] + ([("Load",), ("Complete",), ("PowerSpectrum",)] if both
                                        else [("Load",), ("PowerSpectrum",)])
    ev = [("Synthesis", True), ("Analysis", nat), ("SynthesisPP",), ("AnalysisPP", nat)]
    if both:
        ev += [("Complete",), ("Synthesis", False), ("Analysis", "cplx"), ("SynthesisPP",), ("AnalysisPP", "cplx"),
               ("PowerSpectrum",), ("Load",)]
    ev += [("PowerSpectrum",), ("Sample",), ("Analysis", nat), ("Synthesis", False), ("Sample",), ("AnalysisPP", nat)]
    if both:
        ev += [("Sample",), ("Analysis", "cplx"), ("Sample",), ("AnalysisPP", "cplx")]
    ev += [("Load",), ("Synthesis", False), ("Combine", "g1"), ("Analysis", nat), ("Combine", "g2"),
           ("Synthesis", False), ("Analysis", nat)]
    return ev


def grid_points(L, ntheta, nphi, prog, dense, rng):
    n = ntheta * nphi
    if prog == "eval":
        return [], False
    if prog == "main" and n <= FULL_GRID_MAX:
        return [[i, j] for i in range(ntheta) for j in range(nphi)], True
    want = SINGLE_POINTS if prog == "single" else SUB_POINTS
    if n <= want:
        return [[i, j] for i in range(ntheta) for j in range(nphi)], False
    ids = sorted(rng.sample(range(n), want))
    return [[i // nphi, i % nphi] for i in ids], False


def drive(recipe):
    """recipe: {L, kind, vec: spec, prog, seed, g1, g2, k1, k2, ne}"""
    from chmpy.shape.sht import SHT
    L, kind, prog = recipe["L"], recipe["kind"], recipe["prog"]
    rng = random.Random(recipe["seed"])
    vec = make_vector(L, kind, recipe["vec"])
    dense = recipe["vec"]["type"] == "dense"
    order = native_order(L, kind)
    t = {"L": L, "kind": kind, "nphi": 0, "ntheta": 0, "exc": "", "func": vec, "chan": [], "gp": [],
         "full": False, "ri": [], "gref": [], "w": [], "ne": 0, "eref": [], "erefR": [], "erefC": [],
         "events": [],
         "meta": {"recipe": recipe, "source": "seeded-" + recipe["vec"]["type"],
                  "impl_call": "SHT(%d): %s program on a %s %s vector" % (L, prog, recipe["vec"]["type"], kind),
                  "nontrivial": L >= 1}}
    try:
        # a caller may choose the grid: any nphi >= 2L+1 and ntheta >= L+1 (odd or even) is an exact quadrature for the band limit
        # the band limit may come out of an integer array (np.arange, a header field): same object
        Larg = (L, np.int64(L), np.int32(L))[recipe["seed"] % 3]
        if recipe.get("grid"):
            # both sizes, or only one of them (the other follows the default rule)
            gkw = {k: v for k, v in (("nphi", recipe["grid"][0]), ("ntheta", recipe["grid"][1])) if v}
            sht = SHT(Larg, **gkw)
        else:
            sht = SHT(Larg)
    except Exception as e:                   # an exception of the implementation is an observation
        t["exc"] = type(e).__name__
        return t
    t["nphi"], t["ntheta"] = int(sht.nphi), int(sht.ntheta)
    theta, phi = np.array(sht.theta, dtype=float), np.array(sht.phi, dtype=float)
    ntheta, nphi = len(theta), len(phi)
    gp, full = grid_points(L, ntheta, nphi, prog, dense, rng)
    t["gp"], t["full"] = gp, full
    gi = np.array([p[0] for p in gp], dtype=int)
    gj = np.array([p[1] for p in gp], dtype=int)

    gvecs = {}
    for name in ("g1", "g2"):
        if recipe.get(name):
            gvecs[name] = make_vector(L, kind, recipe[name])
    # channels with a reference column: where func or a g is non-zero
    used = [k for k in range(len(order)) if vec[k] != [0, 0] or any(g[k] != [0, 0] for g in gvecs.values())]
    chan = [[order[k][0], order[k][1]] for k in used]
    t["chan"] = chan
    if gp:
        if dense:
            ri = sorted(rng.sample(range(len(gp)), min(NPROBE if L <= 16 else 6, len(gp))))
        elif len(gp) <= NREF_SPARSE:
            ri = list(range(len(gp)))
        else:
            ri = sorted(rng.sample(range(len(gp)), NREF_SPARSE))
        t["ri"] = [r + 1 for r in ri]
        t["gref"] = [ref_at_point(chan, theta[gp[r][0]], phi[gp[r][1]]) for r in ri]
    if full:
        from scipy.special import roots_legendre
        _, w = roots_legendre(ntheta)
        t["w"] = [fx(2.0 * math.pi * x) for x in w]
    ne = recipe.get("ne", 0)
    epts = [(rng.uniform(0.05, math.pi - 0.05), rng.uniform(0.0, 2 * math.pi)) for _ in range(ne)]
    if ne >= 8:
        # two consecutive points whose azimuths agree to six or seven digits but are not the same (nothing may be kept "close enough")
        epts[1] = (epts[1][0], epts[0][1] + (3.0e-6 if recipe["seed"] % 2 else -7.0e-7))
        epts[3] = (epts[2][0] + 2.0e-6, epts[2][1])
    if ne >= 6:
        # a latitude, then a pole, then the same latitude again (nothing may be remembered of the pole)
        epts[ne - 3] = (epts[ne - 3][0], epts[ne - 3][1])
        epts[ne - 2] = ((0.0, math.pi)[recipe["seed"] % 2], epts[ne - 2][1])
        epts[ne - 1] = (epts[ne - 3][0], epts[ne - 1][1])
    # the azimuth is periodic, not bounded: what arctan2 returns (negative angles) and angles past a full turn are the same points
    for k in range(len(epts)):
        if (recipe["seed"] + k) % 3 == 0:
            epts[k] = (epts[k][0], epts[k][1] - 2 * math.pi * (1 + (k % 2)))
        elif (recipe["seed"] + k) % 7 == 0:
            epts[k] = (epts[k][0], epts[k][1] + 2 * math.pi)
    if ne >= 4:
        # the poles themselves and points a fraction of a degree away from them (all m != 0 terms vanish only AT the pole)
        near = [0.0, math.pi, 1.0e-3, 3.0e-3, math.pi - 2.0e-3, 4.4e-3, 1.0e-12, math.pi - 1.0e-12]
        for k in range(min(3, ne // 2)):
            epts[k] = (near[(recipe["seed"] + 3 * k) % len(near)], epts[k][1])
    t["ne"] = ne
    t["eref"] = [ref_at_point(chan, a, b) for a, b in epts]
    t["erefR"] = [ref_at_point(chan, a, -b) for a, b in epts]
    t["erefC"] = [ref_at_point(chan, a, math.pi - b) for a, b in epts]

    func = [list(x) for x in vec]

    def layout_array(v, tag):
        return to_array(complete_py(L, v) if (kind == "real" and tag == "ccplx") else v)

    # a caller may do what it likes with the grid arrays it is handed (shift the azimuth, scale the points): the object's own
    # grid is not affected
    try:
        for a in sht.grid:
            a -= math.pi
        for a in sht.grid_cartesian:
            a *= 0.0
    except Exception:
        pass

    def samples(v):
        # sampled where the object says its grid is, at the time of sampling (compute_on_grid hands the mesh to the function)
        def f(T, P):
            T, P = np.asarray(T, dtype=float), np.asarray(P, dtype=float)
            if T.shape != (ntheta, nphi) or P.shape != (ntheta, nphi):
                raise ValueError("grid shape")
            return reference_samples(L, kind, v, T[:, 0].copy(), P[0, :].copy())
        return np.asarray(sht.compute_on_grid(f))

    # change of units by an exact power of two: the function handed to the library is 2^scale2 times the Gaussian-integer one
    # (tiny or huge coefficients), results are scaled back exactly before projection
    sc = math.ldexp(1.0, int(recipe.get("scale2", 0)))
    tag = "creal" if kind == "real" else "ccplx"
    cur = layout_array(func, tag) * sc
    held = []                                # (event, op name, returned object): projected after the whole program has run,
                                             # so a result that a later call overwrites is seen as what the caller then holds
    for op in program(kind, prog, rng, L):
        name = op[0]
        e = {"ev": name, "as": "", "exc": "", "off": False, "cx": False, "shape": [], "obs": [], "nzi": [],
             "k": 0, "g": [], "pv": False, "lowprec": False}
        t["events"].append(e)
        out = None
        try:
            if name == "Load":
                tag = "creal" if kind == "real" else "ccplx"
                cur = layout_array(func, tag) * sc
                continue
            if name == "Sample":
                cur = samples(func) * sc
                tag, out = "grid", cur
            elif name == "Combine":
                g = gvecs[op[1]]
                k = recipe["k1"] if op[1] == "g1" else recipe["k2"]
                e["k"], e["g"] = k, g
                func = [[k * a + c, k * b + d] for (a, b), (c, d) in zip(func, g)]
                if tag == "grid":
                    cur = k * cur + samples(g) * sc
                    out = cur
                else:
                    cur = k * cur + layout_array(g, tag) * sc
                    continue
            elif name == "Synthesis":
                e["pv"] = bool(op[1]) and full
                cur = sht.synthesis(cur)
                tag, out = "grid", cur
            elif name == "SynthesisPP":
                cur = sht.synthesis_pure_python(cur) if tag == "creal" else sht.synthesis_pure_python_cplx(cur)
                tag, out = "grid", cur
            elif name in ("Analysis", "AnalysisPP"):
                e["as"] = op[1]
                arr = cur if op[1] == "real" else np.asarray(cur).astype(np.complex128)
                if name == "Analysis" and recipe.get("single") and sc == 1.0:
                    # grid samples stored in single precision
                    arr = np.asarray(arr).astype(np.float32 if op[1] == "real" else np.complex64)
                    e["lowprec"] = True
                if name == "Analysis":
                    cur = sht.analysis(arr)
                else:
                    cur = sht.analysis_pure_python(arr) if op[1] == "real" else sht.analysis_pure_python_cplx(arr)
                tag, out = ("creal" if op[1] == "real" else "ccplx"), cur
                if e["lowprec"]:
                    cur = layout_array(func, tag) * sc        # the program goes on with the exact coefficients
            elif name == "Complete":
                cur = sht.complete_coefficients(cur)
                tag, out = "ccplx", cur
            elif name == "PowerSpectrum":
                out = sht.power_spectrum(cur)
            elif name == "EvalAt":
                out = np.array([sht.evaluate_at_points(cur, a, b) for a, b in epts])
        except Exception as ex:
            e["exc"] = type(ex).__name__
            break
        held.append((e, name, out))
    for e, name, out in held:
        out = np.asarray(out)
        out = out / (sc * sc if name == "PowerSpectrum" else sc) if sc != 1.0 else out
        e["cx"] = bool(np.iscomplexobj(out))
        e["shape"] = [int(s) for s in out.shape]
        if name in ("Sample", "Combine", "Synthesis", "SynthesisPP"):
            if out.ndim == 2 and out.shape == (ntheta, nphi):
                vals = out[gi, gj]
            else:
                vals = out.reshape(-1)[:0]
        else:
            vals = out.reshape(-1)
        e["obs"], e["off"] = flat(vals, e["cx"])
        if name in ("Analysis", "AnalysisPP", "Complete"):
            # lossless sparse encoding of a coefficient vector: entries that projected to exactly 0 are not listed
            zero = [0] * (6 if e["cx"] else 3)
            keep = [i for i, o in enumerate(e["obs"]) if o != zero]
            e["nzi"] = [i + 1 for i in keep]
            e["obs"] = [e["obs"][i] for i in keep]
    return t


# ------------------------------------------------------------------ recipes
def recipes_for(ctx):
    Ls = QUICK_LS if ctx.quick else list(range(0, 65))
    ndense = 3
    rs = []
    sd = ctx.seed * 1000003

    def nxt():
        nonlocal sd
        sd += 1
        return sd

    for L in Ls:
        for kind in ("real", "cplx"):
            if kind == "cplx" and L == 0:
                continue                               # L = 0 complex: nplm == nlm, the size test picks the real path
            order = native_order(L, kind)
            for v in range(ndense):
                spec = {"type": "dense", "seed": nxt(), "hi": 9}
                g1 = {"type": "dense", "seed": nxt(), "hi": 5}
                g2 = {"type": "dense", "seed": nxt(), "hi": 5}
                rs.append({"L": L, "kind": kind, "vec": spec, "prog": "main", "seed": nxt(), "g1": g1, "g2": g2,
                           "k1": [2, -3, 3][v], "k2": [-2, 2, -1][v]})
                rs.append({"L": L, "kind": kind, "vec": spec, "prog": "eval", "seed": nxt(),
                           "ne": 8 if L <= 16 else 3})
            rng = random.Random(nxt())
            for v in range(2 if ctx.quick else 3):
                rs.append({"L": L, "kind": kind, "vec": sparse_spec(L, kind, rng, 8), "prog": "eval", "seed": nxt(),
                           "ne": 20})
                if L >= 1:
                    rs.append({"L": L, "kind": kind, "vec": sparse_spec(L, kind, rng, 6), "prog": "mixed", "seed": nxt(), "ne": 5})
                rs.append({"L": L, "kind": kind, "vec": sparse_spec(L, kind, rng, 6), "prog": "main", "seed": nxt(),
                           "g1": sparse_spec(L, kind, rng, 1), "g2": sparse_spec(L, kind, rng, 1),
                           "k1": rng.choice([-3, -2, 2, 3]), "k2": rng.choice([-3, -2, 2, 3]),
                           "scale2": (0, -50, 40)[v % 3] if (L + v) % 2 else (-50, 0, 40)[v % 3], "single": (L + v) % 3 == 0})
            # grids chosen by the caller: the smallest exact one (ntheta = L+1 is odd for even L) and a few roomier ones
            for gk, (dphi, dth) in enumerate([(0, 0), (1, 1), (3, 2), (2, 3)][:2 if ctx.quick else 4]):
                rs.append({"L": L, "kind": kind, "vec": sparse_spec(L, kind, rng, 6), "prog": "main", "seed": nxt(),
                           "g1": sparse_spec(L, kind, rng, 1), "g2": sparse_spec(L, kind, rng, 1),
                           "k1": rng.choice([-3, -2, 2, 3]), "k2": rng.choice([-3, -2, 2, 3]),
                           "grid": [2 * L + 1 + dphi, L + 1 + dth]})
                if gk == 0:
                    rs.append({"L": L, "kind": kind, "vec": sparse_spec(L, kind, rng, 8), "prog": "eval", "seed": nxt(),
                               "ne": 6, "grid": [2 * L + 1, L + 1]})
                    # only one of the two sizes given
                    rs.append({"L": L, "kind": kind, "vec": sparse_spec(L, kind, rng, 6), "prog": "main", "seed": nxt(),
                               "g1": sparse_spec(L, kind, rng, 1), "g2": sparse_spec(L, kind, rng, 1), "k1": 2, "k2": -3,
                               "grid": [0, L + 1 + (L % 3)] if L % 2 else [2 * L + 1 + (L % 4), 0]})
            if kind == "cplx" and L <= 20:
                # a purely imaginary function (i times a real one) held in a complex array
                rs.append({"L": L, "kind": kind, "vec": {"type": "ireal", "seed": nxt()}, "prog": "main", "seed": nxt(),
                           "g1": sparse_spec(L, kind, rng, 1), "g2": sparse_spec(L, kind, rng, 1), "k1": 2, "k2": -3})
            if L <= 12:
                for (l, m) in order:
                    a, b = rng.choice([-3, -2, -1, 1, 2, 3]), rng.choice([-3, -2, -1, 1, 2, 3])
                    if kind == "real" and m == 0:
                        b = 0
                    spec = {"type": "single", "chan": [[l, m, a, b]]}
                    rs.append({"L": L, "kind": kind, "vec": spec, "prog": "single", "seed": nxt()})
                    rs.append({"L": L, "kind": kind, "vec": spec, "prog": "eval", "seed": nxt(), "ne": 4})
    return rs


def size_of(t):
    """approximate number of integers shipped for a trace"""
    n = sum(len(e["obs"]) * (6 if e["cx"] else 3) + 2 * len(e["g"]) for e in t["events"])
    return n + 6 * len(t["chan"]) * (len(t["gref"]) + 3 * t["ne"]) + 2 * len(t["func"]) + 2 * len(t["gp"])


def weight(r):
    n = (r["L"] + 1) ** 2
    return n * (30 if r["vec"]["type"] == "dense" else 3)


def drive_plm(rec):
    """Associated Legendre tables: pure-Python class, compiled class, scipy reference."""
    import warnings
    from scipy.special import sph_harm_y
    L, x = rec["L"], rec["x1000"] / 1000.0
    t = {"L": L, "x1000": rec["x1000"], "exc": "", "off": False, "py": [], "cy": [], "ref": [],
         "meta": {"recipe": rec, "source": "plm-tables", "nontrivial": True,
                  "impl_call": "chmpy.shape.AssocLegendre(%d).evaluate_batch(%r) vs chmpy.shape._sht.AssocLegendre" % (L, x)}}
    ms = np.concatenate([np.full(L + 1 - m, m) for m in range(L + 1)])
    ls = np.concatenate([np.arange(m, L + 1) for m in range(L + 1)])
    ref = ((-1.0) ** ms) * np.asarray(sph_harm_y(ls, ms, math.acos(x), 0.0)).real

    def q(arr):
        out = []
        for v in np.asarray(arr, dtype=float).ravel():
            if not math.isfinite(v) or abs(v) > 7.9:
                t["off"] = True
                out.append(0)
            else:
                out.append(int(round(v * (1 << 28))))
        return out
    t["ref"] = q(ref)
    t["off"] = False
    try:
        with warnings.catch_warnings():
            warnings.simplefilter("ignore")
            from chmpy.shape import AssocLegendre as PyPlm
            from chmpy.shape._sht import AssocLegendre as CyPlm
            t["py"] = q(PyPlm(L).evaluate_batch(x))
            t["cy"] = q(CyPlm(L).evaluate_batch(x))
    except Exception as e:
        t["exc"] = type(e).__name__
    return t


def run(ctx, explain=False):
    lv = ctx.pick(4, 5)
    ctx.model_check("mc/MC_SHT.tla", MC_CFG % lv, name="MC_SHT(L<=%d vectors, L<=64 layouts/grid)" % lv, timeout=1200)
    rs = recipes_for(ctx)
    order = sorted(range(len(rs)), key=lambda i: -weight(rs[i]))      # heavy first for load balance
    traces = pool_map(drive, [rs[i] for i in order], chunksize=1)
    # one TLC run per ~20 M integers (~80 MB) of trace data, light traces first
    traces.sort(key=size_of)
    batch, acc, k, drift = [], 0, 0, 0
    for t in traces + [None]:
        if t is None or (batch and acc + size_of(t) > 20_000_000):
            k += 1
            out = ctx.validate(TRACE, batch, name="Trace_SHT(batch %d)" % k, timeout=3000)
            drift += sum(1 for v in out.values() if "drift=" in v)
            batch, acc = [], 0
        if t is not None:
            batch.append(t)
            acc += size_of(t)
    # the Legendre tables themselves: pure-Python class vs compiled class vs scipy
    plm_Ls = ctx.pick([1, 4, 12, 16, 17, 24, 33, 47], list(range(0, 65)))
    plm = [{"L": L, "x1000": x} for L in plm_Ls for x in ctx.pick((-930, 0, 500), (-999, -930, -200, 0, 333, 500, 999))]
    ctx.validate("trace/Trace_Plm.tla", pool_map(drive_plm, plm), name="Trace_Plm", timeout=1200)
    Ls = sorted({r["L"] for r in rs})
    ctx.exhaustive = False
    ctx.rule = ("L in %s; per L and kind (real, complex): 3 dense Gaussian-integer vectors (every channel non-zero) "
                "through the full program (compiled + pure-Python synthesis/analysis, real and complex kernels, "
                "complete_coefficients, power_spectrum, analysis of scipy-built samples, two linear combinations), "
                "sparse vectors, every single (l,m) channel alone for L <= 12, evaluate_at_points at off-grid points; "
                "non-trivial = L >= 1" % (
                    "{0..12,16,23,32,47}" if ctx.quick else "0..64"))
    ctx.explanation = ("every L of the tier and, for L <= 12, every single channel are enumerated; coefficient values "
                       "are sampled (seeded); grids above %d points are compared on %d seeded points" % (
                           FULL_GRID_MAX, SUB_POINTS))
    ctx.assumptions = [
        "scipy.special.sph_harm_y (orthonormal, Condon-Shortley) is the reference for Y_lm; 2^-40 fixed point",
        "slack: 2^-30 (9.3e-10) of the largest expected magnitude of the compared array + reference quantisation "
        "(sum |c| quanta) + 4 quanta; Parseval 2^-28; measured noise of the unchanged tree < 1e-12",
        "the sample points are those of SHT.grid (public); Gauss-Legendre weights for Parseval from scipy.roots_legendre",
        "compiled kernels (_sht*.so) are used as found; they cannot be rebuilt here",
    ]
    ctx.notes["L_values"] = Ls
    ctx.notes["spec_drift"] = "%d accepted traces whose grid sizes differ from the transcribed rule (still sufficient)" % drift
    ctx.notes["slack"] = {"RelBits": 30, "AbsQuanta": 4, "quantum": "2^-40", "ParsevalRelBits": 28}


def replay(ctx, rec):
    t = drive(rec["record"]["meta"]["recipe"])
    ctx.validate(TRACE, [t])


if __name__ == "__main__":
    raise SystemExit(main("C07", run, replay))
