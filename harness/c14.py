"""C14 - derived crystal data always reflect the crystal's current state.

(M) MC_CrystalObject: all histories (queries / trigonal switches / deep copies) of the specified design keep
    every memo consistent (Fresh, MemoConsistent, QueriesDoNotMutate); --explain shows TLC's shortest stale
    history of the as-built design.
(G) the same model with Emit=TRUE prints every history up to a depth as a word; each word is replayed on real
    Crystal objects of six structures.
(T) every replay is a trace of events validated step by step by Trace_CrystalObject.
"""
import copy
import hashlib
import json
import math

from harness.common import main, pool_map
from harness import tlc, xtal
from harness.c02 import table_rows
from harness.project import to_grid

QUERIES = ["unit_cell_atoms", "slab", "unit_cell_connectivity", "unit_cell_molecules", "symmetry_unique_molecules",
           "atoms_in_radius", "atomic_surroundings", "molecule_environments", "density", "to_cif_string",
           "to_shelx_string", "to_poscar_string", "as_P1", "cartesian_symmetry_operations", "as_P1_supercell",
           "to_translational_symmetry", "molecular_shell", "symmetry_unique_dimers"]
CORE = ["unit_cell_atoms", "unit_cell_connectivity", "unit_cell_molecules", "symmetry_unique_molecules",
        "molecule_environments", "density", "to_cif_string", "to_shelx_string"]

MC_CFG = """SPECIFICATION Spec
CHECK_DEADLOCK FALSE
CONSTANTS
  Design = "%s"
  Depth = %d
  MaxObjs = 2
  WithNormalize = %s
  QSet = {%s}
  Emit = %s
  Loaded = %s
INVARIANT Fresh
INVARIANT MemoConsistent
PROPERTY QueriesDoNotMutate
%s
"""


def qset(names):
    return ", ".join('"%s"' % q for q in names)


# ---------------------------------------------------------------- structures
def structure_recipes(seed):
    """Three structures with an R-centred lattice: built in memory (hexagonal axes, molecular), loaded from a CIF
    string (hexagonal axes), loaded from a SHELX string (rhombohedral axes)."""
    import random
    rows = table_rows()
    out = []
    rng = random.Random(seed)
    rowA = [r for r in rows if r["number"] == 148 and r["choice"] == "H"][0]
    recA = None
    while recA is None:
        recA = xtal.gen_molecular(rng, rowA, nmols=1, sizes=(3,), n=48)
    recA["gram"] = [[9 * x for x in row] for row in recA["gram"]]
    recA["u"] = recA["u"] / 3.0
    recA["via"] = "memory"
    out.append(recA)
    rowB = [r for r in rows if r["number"] == 167 and r["choice"] == "H"][0]
    asym = xtal.gen_asym(rng, rowB["ops"], 24, 2, want_special=True, occ_choices=(12,))
    p, q = rng.randint(2, 5), rng.randint(3, 12)
    gram = [[18 * p, -9 * p, 0], [-9 * p, 18 * p, 0], [0, 0, 9 * q]]
    vol = len(rowB["ops"]) * len(asym) * 14.0
    out.append({"number": 167, "choice": "H", "n": 24, "gram": gram, "u": (vol / math.sqrt(xtal.det3(gram))) ** (1 / 3.0),
                "asym": asym, "via": "cif"})
    rowC = [r for r in rows if r["number"] == 146 and r["choice"] == "R"][0]
    asym = xtal.gen_asym(rng, rowC["ops"], 12, 3, want_special=False, occ_choices=(12,))
    g = rng.randint(8, 30)
    o = rng.randint(-g // 3, g // 2)
    gram = [[g, o, o], [o, g, o], [o, o, g]]
    vol = len(rowC["ops"]) * len(asym) * 18.0
    out.append({"number": 146, "choice": "R", "n": 12, "gram": gram, "u": (vol / math.sqrt(xtal.det3(gram))) ** (1 / 3.0),
                "asym": asym, "via": "res"})
    # D: a partially occupied atom just off the 3-fold axis (its three images are 0.006 apart in fractional
    #    coordinates: merged at the documented tolerance 0.01, distinct at 0.001) next to a general atom
    rowD = rowA
    gramD = [[18 * 4, -9 * 4, 0], [-9 * 4, 18 * 4, 0], [0, 0, 9 * 11]]
    asymD = [{"z": 8, "p": [1, 0, 37], "occ": 4, "label": "O1"}, {"z": 6, "p": [70, 31, 120], "occ": 12, "label": "C2"}]
    volD = len(rowD["ops"]) * 2 * 22.0
    out.append({"number": 148, "choice": "H", "n": 288, "gram": gramD, "u": (volD / math.sqrt(xtal.det3(gramD))) ** (1 / 3.0),
                "asym": asymD, "via": "memory"})
    # E: a diatomic molecule lying across an inversion centre (Z' = 1/2: the molecule consists of two images of one
    #    asymmetric atom) listed before a whole molecule on a general position
    recE = None
    for _ in range(200):
        base = xtal.gen_molecular(rng, rowA, nmols=1, sizes=(2,), n=48, with_h=False, vol_per_atom=60.0)
        if base is None:
            continue
        n, gram, u = base["n"], base["gram"], base["u"]
        import numpy as np
        s2 = u * u / (n * n)
        cand = [(a, b, c) for a in range(-3, 4) for b in range(-3, 4) for c in range(-3, 4) if (a, b, c) != (0, 0, 0)]
        rng.shuffle(cand)
        centre = (n // 2, 0, 0)
        for dlt in cand:
            d2 = float(xtal._gdot(gram, np.array([[2 * x for x in dlt]], dtype=np.int64))[0]) * s2
            if not (1.05 ** 2 <= d2 <= 1.3 ** 2):
                continue
            site = {"z": 7, "p": [centre[k] + dlt[k] for k in range(3)], "occ": 12, "label": "N1"}
            asym = [site] + [dict(a) for a in base["asym"]]
            pts = {}
            ok = True
            for si, a in enumerate(asym):
                for c in rowA["ops"]:
                    q = xtal.apply_grid(c, a["p"], n)
                    if q in pts:
                        ok = False
                    pts[q] = si
            if not ok:
                continue
            uc = np.array(list(pts.keys()), dtype=np.int64)
            cells = np.array([(a, b, c) for a in (-1, 0, 1) for b in (-1, 0, 1) for c in (-1, 0, 1)], dtype=np.int64) * n
            pa = np.array([x % n for x in site["p"]], dtype=np.int64)
            dd = xtal._gdot(gram, (uc[:, None, :] + cells[None, :, :]) - pa[None, None, :]) * s2
            close = np.sort(dd[dd < 2.3 ** 2])
            # itself (0) and its inversion image (the bond), nothing else within 2.3 A
            if len(close) == 2 and close[0] < 1e-9 and 1.0 < math.sqrt(close[1]) < 1.35:
                for i, a in enumerate(asym):
                    a["label"] = "%s%d" % (xtal.SYMBOLS[a["z"]], i + 1)
                recE = dict(base, asym=asym, via="memory")
                recE["gram"] = [[9 * x for x in row] for row in gram]
                recE["u"] = u / 3.0
                break
        if recE:
            break
    if recE:
        out.append(recE)
    # F: space group P1 with whole molecules given partly outside the cell (coordinates < 0 and >= 1), as as_P1(), POSCAR
    #    or Cartesian inputs produce them; no setting switch applies (switch tokens are dropped from its histories)
    rowF = [r for r in rows if r["number"] == 1][0]
    recF = None
    while recF is None:
        recF = xtal.gen_molecular(rng, rowF, nmols=2, sizes=(2, 3), n=48)
    for k, mol in enumerate(recF["mols"]):
        sh = [(-1, 0, 1)[(k + c) % 3] * recF["n"] for c in range(3)]
        for i in mol:
            a = recF["asym"][i - 1]
            a["p"] = [a["p"][c] + sh[c] for c in range(3)]
    recF["via"] = "memory"
    recF["noswitch"] = True
    out.append(recF)
    # G: a trigonal group on a primitive hexagonal lattice (P3_1): trigonal, but without rhombohedral/hexagonal choices
    rowG = [r for r in rows if r["number"] == 144][0]
    recG = None
    while recG is None:
        recG = xtal.gen_molecular(rng, rowG, nmols=1, sizes=(3,), n=48)
    recG["via"] = "memory"
    recG["noswitch"] = True
    out.append(recG)
    # I: substitutional disorder in P1 - two elements share one site with occupancies 7/12 and 5/12 (the unit-cell listing merges
    #    them; the asymmetric unit keeps both as given)
    recI = None
    while recI is None:
        recI = xtal.gen_molecular(rng, rowF, nmols=1, sizes=(3,), n=48, with_h=False)
    first = recI["asym"][0]
    first["occ"] = 7
    # (the second occupant is listed right after the first, not at the end of the list)
    recI["asym"].insert(1, {"z": 16, "p": list(first["p"]), "occ": 5, "label": "S%d" % (len(recI["asym"]) + 1)})
    recI["mols"] = [[i if i == 1 else i + 1 for i in m] for m in recI.get("mols", [])]
    recI["bonds"] = [[a_ if a_ == 1 else a_ + 1, b_ if b_ == 1 else b_ + 1] for a_, b_ in recI.get("bonds", [])]
    recI["via"] = "memory"
    recI["noswitch"] = True
    out.append(recI)
    # J: one atom at the origin of an R group: the only point with the same coordinates in both settings
    gramJ = [[18 * 3, -9 * 3, 0], [-9 * 3, 18 * 3, 0], [0, 0, 9 * 7]]
    out.append({"number": 166, "choice": "H", "n": 12, "gram": gramJ, "u": (len([r for r in rows if r["number"] == 166 and r["choice"] == "H"][0]["ops"]) * 20.0 / math.sqrt(xtal.det3(gramJ))) ** (1 / 3.0),
                "asym": [{"z": 80, "p": [0, 0, 0], "occ": 12, "label": "Hg1"}], "via": "cif"})
    # H: a molecule with at least two hydrogens on C, N or O (X-H distances as X-ray structures give them, to be normalised)
    recH = None
    for _ in range(400):
        cand = xtal.gen_molecular(rng, rowA, nmols=1, sizes=(rng.choice([4, 5, 6]),), n=48)
        if cand is None:
            continue
        zs = [a["z"] for a in cand["asym"]]
        nh = sum(1 for a_, b_ in cand["bonds"] if (zs[a_ - 1] == 1) != (zs[b_ - 1] == 1))
        if nh >= 2:
            recH = cand
            break
    if recH:
        recH["gram"] = [[9 * x for x in row] for row in recH["gram"]]
        recH["u"] = recH["u"] / 3.0
        recH["via"] = "memory"
        out.append(recH)
    return out


def make_object(rec):
    from chmpy.crystal import Crystal
    xtal.other_structures_loaded_earlier()
    cr = xtal.build_crystal(rec)
    if rec["via"] == "cif":
        cr = Crystal.from_cif_string(cr.to_cif_string())
    elif rec["via"] == "res":
        cr = Crystal.from_shelx_string(cr.to_shelx_string())
    return cr


def fresh_of(cr):
    """A freshly constructed crystal with the same cell, space group and asymmetric unit (exact copies of the floats)."""
    import numpy as np
    from chmpy.crystal import Crystal, UnitCell, SpaceGroup, AsymmetricUnit
    uc = UnitCell(np.array(cr.unit_cell.direct, dtype=float).copy())
    sg = SpaceGroup(cr.space_group.international_tables_number, choice=cr.space_group.choice)
    au = cr.asymmetric_unit
    kw = {}
    if "occupation" in au.properties:
        kw["occupation"] = np.array(au.properties["occupation"], dtype=float).copy()
    asym = AsymmetricUnit(list(au.elements), np.array(au.positions, dtype=float).copy(),
                          labels=[str(x) for x in au.labels], **kw)
    return Crystal(uc, sg, asym)


# ---------------------------------------------------------------- projections / digests
def _g(cr, pts, nf):
    """grid tuples of fractional coordinates of Cartesian points (pulled back with the crystal's own cell)."""
    import numpy as np
    if len(pts) == 0:
        return []
    fr = np.asarray(cr.to_fractional(np.asarray(pts, dtype=float)))
    return [tuple(int(round(float(x) * nf)) for x in r) for r in fr]


def _gf(frac, nf):
    return [tuple(int(round(float(x) * nf)) for x in r) for r in frac]


def _crystal_summary(c, nf, u):
    import numpy as np
    d = np.asarray(c.unit_cell.direct, dtype=float)
    gram = [[round(float(x) / (u * u), 5) + 0.0 for x in row] for row in d @ d.T]      # + 0.0: -0.0 and 0.0 are one answer
    return {"sg": int(c.space_group.international_tables_number),
            "ops": sorted(int(s.integer_code) for s in c.space_group.symmetry_operations), "gram": gram,
            # atoms modulo the lattice, on the grid (rounding noise such as -1e-17 must not become 0.99999...)
            "atoms": [(int(z), tuple(x % nf for x in p)) for z, p in zip(c.asymmetric_unit.atomic_numbers,
                                                                          _gf(np.asarray(c.asymmetric_unit.positions), nf))]}


def canon(q, cr, nf, u):
    import numpy as np
    from chmpy.crystal import Crystal
    if q == "unit_cell_atoms":
        d = cr.unit_cell_atoms()
        return list(zip(_gf(d["frac_pos"], nf), _g(cr, d["cart_pos"], nf), map(int, d["asym_atom"]), map(int, d["element"]),
                        [round(float(x), 6) for x in d["occupation"]], map(int, d["symop"]), map(str, d["label"])))
    if q == "slab":
        d = cr.slab(bounds=((-1, -1, -1), (1, 1, 1)))
        return [int(d["n_uc"]), int(d["n_cells"]),
                list(zip(_gf(d["frac_pos"], nf), _g(cr, d["cart_pos"], nf), map(int, d["asym_atom"]), map(int, d["element"])))]
    if q == "unit_cell_connectivity":
        g, props = cr.unit_cell_connectivity()
        uc = cr.unit_cell_atoms()
        fp = _gf(uc["frac_pos"], nf)
        return sorted((fp[i], fp[j], tuple(int(round(float(x))) for x in c), round(float(g[i, j]), 5)) for (i, j), c in props.items())
    if q in ("unit_cell_molecules", "symmetry_unique_molecules"):
        mols = getattr(cr, q)()
        # the list order is part of the answer (callers index molecules by position in this list)
        return [list(zip(_g(cr, m.positions, nf), map(int, m.atomic_numbers))) for m in mols]
    if q == "atoms_in_radius":
        d = cr.atoms_in_radius(4.0, origin=(0.3, 0.4, 0.5))
        return list(zip(_g(cr, d["cart_pos"], nf), map(int, d["element"])))
    if q == "atomic_surroundings":
        res = cr.atomic_surroundings(radius=4.0)
        return [[int(s["centre"]["element"]), sorted(zip(_g(cr, s["neighbours"]["cart_pos"], nf), map(int, s["neighbours"]["element"]),
                                                       [round(float(x), 5) for x in s["neighbours"]["distance"]]))] for s in res]
    if q == "molecule_environments":
        res = cr.molecule_environments(radius=4.0)
        return [[list(zip(_g(cr, m.positions, nf), map(int, m.atomic_numbers))), sorted(zip(_g(cr, pos, nf), map(int, els)))]
                for m, els, pos in res]
    if q == "density":
        return float("%.8g" % float(cr.density))
    if q == "to_cif_string":
        return _crystal_summary(Crystal.from_cif_string(cr.to_cif_string()), nf, u)
    if q == "to_shelx_string":
        return _crystal_summary(Crystal.from_shelx_string(cr.to_shelx_string()), nf, u)
    if q == "to_poscar_string":
        return _crystal_summary(Crystal.from_vasp_string(cr.to_poscar_string()), nf, u)
    if q == "as_P1":
        return _crystal_summary(cr.as_P1(), nf, u)
    if q == "as_P1_supercell":
        return _crystal_summary(cr.as_P1_supercell((2, 1, 1)), 2 * nf, u)
    if q == "to_translational_symmetry":
        return _crystal_summary(cr.to_translational_symmetry(supercell=(1, 2, 1)), 2 * nf, u)
    if q == "molecular_shell":
        return sorted(sorted(zip(_g(cr, m.positions, nf), map(int, m.atomic_numbers))) for m in cr.molecular_shell(mol_idx=0, radius=3.5))
    if q == "symmetry_unique_dimers":
        # geometry AND the crystallographic description of each dimer (lattice shift, generating operations) in the setting
        # the crystal is in now
        uniq, per = cr.symmetry_unique_dimers(radius=3.5)
        def _d(d):
            return [sorted(zip(_g(cr, d.a.positions, nf), map(int, d.a.atomic_numbers))),
                    sorted(zip(_g(cr, d.b.positions, nf), map(int, d.b.atomic_numbers))),
                    [int(round(float(x))) for x in np.asarray(d.frac_shift).ravel()] if d.frac_shift is not None else [],
                    int(d.a.properties["generator_symop"][0]) if "generator_symop" in d.a.properties else -1,
                    int(d.b.properties["generator_symop"][0]) if "generator_symop" in d.b.properties else -1]
        return [sorted(_d(d) for d in uniq), [sorted((int(k), _d(d)) for k, d in lst) for lst in per]]
    if q == "cartesian_symmetry_operations":
        return sorted([[round(float(x), 6) + 0.0 for x in np.asarray(r).ravel()], [round(float(x), 6) + 0.0 for x in t]]
                      for r, t in cr.cartesian_symmetry_operations())
    raise ValueError(q)


def digest(obj):
    return hashlib.sha1(json.dumps(obj, sort_keys=True, default=str).encode()).hexdigest()[:16]


def answer(q, cr, nf, u):
    try:
        return digest(canon(q, cr, nf, u)), ""
    except Exception as e:
        return "exc:" + type(e).__name__, type(e).__name__


def state_of(cr, nf, u):
    import numpy as np
    d = np.asarray(cr.unit_cell.direct, dtype=float)
    g = d @ d.T / (u * u)
    gram, off = [], False
    for i in range(3):
        row = []
        for j in range(3):
            k = int(round(g[i, j]))
            off |= abs(g[i, j] - k) > 1e-6 * max(1.0, abs(k))
            row.append(k)
        gram.append(row)
    pts = []
    for r in np.asarray(cr.asymmetric_unit.positions, dtype=float):
        p = []
        for x in r:
            k, o = to_grid(float(x), nf, 1e-6)
            p.append(k)
            off |= o
        pts.append(p)
    sig = hashlib.sha1(np.asarray(cr.unit_cell.direct, dtype=float).tobytes() + np.asarray(cr.asymmetric_unit.positions, dtype=float).tobytes()
                       + str(cr.space_group.choice).encode()).hexdigest()[:16]
    st = {"choice": cr.space_group.choice, "n": nf, "gram": gram, "pts": pts, "sig": sig, "off": bool(off)}
    au = cr.asymmetric_unit
    aux = digest([int(cr.space_group.international_tables_number), cr.space_group.choice,
                  [int(s.integer_code) for s in cr.space_group.symmetry_operations], [str(x) for x in au.labels],
                  [int(z) for z in au.atomic_numbers],
                  [round(float(x), 9) for x in au.properties.get("occupation", [])]])
    return st, aux, bool(off)


# ---------------------------------------------------------------- replay of one word
_FRESH = {}


def drive(job):
    import numpy as np
    rec, word = job["rec"], job["word"]
    nf, u = 3 * rec["n"], rec["u"]
    objs = {1: make_object(rec)}
    st0, _, off0 = state_of(objs[1], nf, u)
    t = {"init": st0, "loaded": rec["via"] == "cif", "number": int(rec["number"]), "events": [],
         "meta": {"recipe": job, "source": job.get("src", "tlc-word"), "nontrivial": any(":s:" in w for w in word),
                  "impl_call": "%s structure (%d %s): %s" % (rec["via"], rec["number"], rec["choice"], ",".join(word))}}
    for tok in word:
        parts = tok.split(":")
        if parts[0] == "c":
            src, dst = int(parts[1]), int(parts[2])
            ev = {"ev": "copy", "src": src, "dst": dst, "exc": "", "state": st0}
            try:
                objs[dst] = copy.deepcopy(objs[src])
                ev["state"] = state_of(objs[dst], nf, u)[0]
            except Exception as e:
                ev["exc"] = type(e).__name__
            t["events"].append(ev)
            continue
        i = int(parts[0])
        cr = objs[i]
        if parts[1] == "x":
            # a request the object must refuse (no H/R choices for this group, or a misspelt choice); the caller carries on
            _, aux_before, _ = state_of(cr, nf, u)
            ev = {"ev": "refused", "obj": i, "ch": parts[2], "exc": "", "off": False, "state": st0, "aux": "", "aux_before": aux_before}
            try:
                cr.choose_trigonal_lattice(parts[2])
            except Exception as e:
                ev["exc"] = type(e).__name__
            s, aux, off = state_of(cr, nf, u)
            ev.update(state=s, aux=aux, off=off)
            t["events"].append(ev)
            continue
        if parts[1] == "n":
            # the other in-place state change of the API: hydrogens moved to neutron X-H distances
            _, aux_before, _ = state_of(cr, nf, u)
            pos0 = np.array(cr.asymmetric_unit.positions, dtype=float)
            d0 = np.array(cr.unit_cell.direct, dtype=float)
            ev = {"ev": "normalize", "obj": i, "exc": "", "off": False, "state": st0, "aux": "", "aux_before": aux_before, "atoms": [],
                  "cellsame": True}
            try:
                cr.normalize_hydrogen_bondlengths()
            except Exception as e:
                ev["exc"] = type(e).__name__
            s, aux, off = state_of(cr, nf, u)
            pos1 = np.array(cr.asymmetric_unit.positions, dtype=float)
            d1 = np.array(cr.unit_cell.direct, dtype=float)
            ev.update(state=s, aux=aux, off=off, cellsame=bool(np.array_equal(d0, d1)))
            zs = [int(z) for z in cr.asymmetric_unit.atomic_numbers]
            partner = {}
            for a_, b_ in rec.get("bonds", []):
                for h_, x_ in ((a_, b_), (b_, a_)):
                    if zs[h_ - 1] == 1 and zs[x_ - 1] != 1:
                        partner[h_ - 1] = x_ - 1
            for k, z in enumerate(zs):
                moved = bool(pos1.shape == pos0.shape and np.max(np.abs((pos1[k] - pos0[k]) @ d1)) > 1e-9) if pos1.shape == pos0.shape else True
                # structures that do not declare their bonds (generated ones): which hydrogens have a partner is not known here
                xz, ln = (0 if rec.get("bonds") else -1), 0
                if z == 1 and k in partner:
                    xz = zs[partner[k]]
                    dv = pos1[k] - pos1[partner[k]]
                    dv = dv - np.round(dv)                   # nearest image
                    ln = int(round(float(np.linalg.norm(dv @ d1)) * 1000))
                ev["atoms"].append({"z": z, "moved": moved, "xz": xz, "len1000": ln})
            t["events"].append(ev)
            continue
        if parts[1] == "s":
            ev = {"ev": "switch", "obj": i, "ch": parts[2], "exc": "", "off": False, "state": st0}
            try:
                cr.choose_trigonal_lattice(parts[2])
                s, _, off = state_of(cr, nf, u)
                ev.update(state=s, off=off)
            except Exception as e:
                ev["exc"] = type(e).__name__
            t["events"].append(ev)
        else:
            q = parts[2]
            s_before, aux_before, _ = state_of(cr, nf, u)
            # the fresh crystal is built from exact copies of this object's floats; cache by those bytes
            import numpy as np
            key = (np.asarray(cr.unit_cell.direct, dtype=float).tobytes(),
                   np.asarray(cr.asymmetric_unit.positions, dtype=float).tobytes(), cr.space_group.choice, q, rec["number"])
            # answers are digested on the grid of the exact domain; an object that has left it (normalised hydrogens) is digested
            # 2^14 times finer (4e-7 in fractional coordinates: far above rounding noise, far below any real displacement)
            nfq = nf * 16384 if s_before["off"] else nf
            if key not in _FRESH:
                _FRESH[key] = answer(q, fresh_of(cr), nfq, u)[0]
            ans, exc = answer(q, cr, nfq, u)
            s_after, aux_after, off = state_of(cr, nf, u)
            t["events"].append({"ev": "query", "obj": i, "q": q, "exc": exc, "off": off, "ans": ans, "fresh": _FRESH[key],
                                "state": s_after, "aux": aux_after, "aux_before": aux_before})
    return t


def words_from_tlc(ctx, design_depth, names, loaded):
    cfg = MC_CFG % ("spec", design_depth, "TRUE", qset(names), "TRUE", "TRUE" if loaded else "FALSE", "CONSTRAINT EmitWord")
    res = tlc.run("mc/MC_CrystalObject.tla", cfg, timeout=900, workers=4)
    ctx._account(res, "MC_CrystalObject(emit depth=%d |Q|=%d)" % (design_depth, len(names)))
    if not res.ok:
        raise tlc.TLCFailure("MC_CrystalObject (spec design) failed: %s %s" % (res.violated, res.errors))
    return sorted({s[2:] for s in res.printed if s.startswith("W|")})


def run(ctx, explain=False):
    # (M) the specified design keeps every memo consistent; also depth beyond what is replayed
    ctx.model_check("mc/MC_CrystalObject.tla",
                    MC_CFG % ("spec", ctx.pick(5, 6), "TRUE", qset(CORE[:4] + ["to_cif_string"]), "FALSE", "TRUE", ""),
                    name="MC_CrystalObject(spec)", timeout=1500)
    # unbounded histories: Apalache discharges the inductive invariant "no memo is stale" for the specified design
    from harness import apalache
    obligations = [("CInit", "Init", "IndInv", 0), ("CInit", "IndInit", "IndInv", 1), ("CInit", "IndInit", "Fresh", 0)]
    done = 0
    for cinit, init, inv, length in obligations:
        outcome, wall, tail = apalache.check("CrystalObjectInd.tla", cinit, init, inv, length)
        if outcome != "ok":
            raise tlc.TLCFailure("Apalache obligation %s/%s/%s length %d: %s\n%s" % (cinit, init, inv, length, outcome, tail))
        done += 1
    ctx.notes["apalache_inductive_obligations"] = {"discharged": done, "of": len(obligations),
                                                   "module": "specs/apalache/CrystalObjectInd.tla"}
    if explain:
        outcome, wall, tail = apalache.check("CrystalObjectInd.tla", "CInitAsBuilt", "IndInit", "IndInv", 1)
        print("Apalache on the as-built design (memo kept across a switch): inductive step is", outcome)
        res = tlc.run("mc/MC_CrystalObject.tla", MC_CFG % ("asbuilt", 3, "TRUE", qset(["unit_cell_atoms", "to_cif_string"]), "FALSE", "TRUE", ""),
                      timeout=300)
        print("as-built design (no invalidation on switch): violated", res.violated)
        print(res.stdout[-2500:])
    recs = structure_recipes(ctx.seed)
    jobs = []
    # (G) words enumerated by TLC from the model's Next relation
    w_full2 = words_from_tlc(ctx, 2, QUERIES, True)
    w_core3 = words_from_tlc(ctx, 3, CORE, True)
    words = {tuple(w.split(",")) for w in w_full2 + w_core3}
    if not ctx.quick:
        words |= {tuple(w.split(",")) for w in words_from_tlc(ctx, 3, QUERIES, True)}
        words |= {tuple(w.split(",")) for w in words_from_tlc(ctx, 4, CORE[:5] + ["to_cif_string"], True)}
    words = sorted(words)
    ctx.notes["tlc_words"] = len(words)
    for k, rec in enumerate(recs):
        sel = words if (not ctx.quick or k == 0) else [w for j, w in enumerate(words) if (j + k) % 4 == 0]
        if ctx.quick and k >= 3:
            sel = [w for j, w in enumerate(words) if (j + k) % 3 == 0]
        if rec.get("noswitch"):
            # no setting switch applies: the request is one the object must refuse
            sel = sorted({tuple(x.replace(":s:", ":x:") for x in w) for w in sel} - {()})
        for j, w in enumerate(sel):
            w = list(w)
            if not rec.get("noswitch") and j % 3 == 0:
                # a misspelt request somewhere before the end of the history
                w.insert((j // 3) % len(w), "1:x:" + ("r", "hex", "h", "")[(j // 3) % 4])
            jobs.append({"rec": rec, "word": w})
    # "ask - change the setting - ask again" (and the same on a copy taken before the change) for every query of the
    # alphabet: the shortest history on which an answer kept from before the change can surface
    for rec in recs:
        if rec.get("noswitch"):
            for q in QUERIES:
                jobs.append({"rec": rec, "word": ["1:q:" + q, "1:n:0", "1:q:" + q, "c:1:2", "2:n:0", "2:q:" + q], "src": "ask-change-ask"})
            continue
        other = "R" if rec["choice"] == "H" else "H"
        for q in QUERIES:
            jobs.append({"rec": rec, "word": ["1:q:" + q, "1:s:" + other, "1:q:" + q], "src": "ask-change-ask"})
            jobs.append({"rec": rec, "word": ["1:q:" + q, "1:n:0", "1:q:" + q, "1:s:" + other, "1:q:" + q], "src": "ask-change-ask"})
            if q not in CORE:
                jobs.append({"rec": rec, "word": ["1:q:" + q, "c:1:2", "2:s:" + other, "2:q:" + q, "1:q:" + q, "2:s:" + rec["choice"], "2:q:" + q],
                             "src": "ask-change-ask"})
    # longer random histories
    rng = ctx.rng
    alphabet1 = ["1:q:" + q for q in QUERIES] + ["1:s:H", "1:s:R", "1:n:0"]
    for _ in range(ctx.pick(150, 3000)):
        rec = rng.choice(recs)
        word, nobj = [], 1
        for _ in range(rng.randint(5, 12)):
            r = rng.random()
            if r < 0.08 and nobj < 2:
                word.append("c:1:2")
                nobj = 2
            else:
                tok = rng.choice(alphabet1)
                if nobj == 2 and rng.random() < 0.5:
                    tok = "2" + tok[1:]
                word.append(tok)
        if rec.get("noswitch"):
            word = [x.replace(":s:", ":x:") for x in word]
        elif word and rng.random() < 0.5:
            word.insert(rng.randrange(len(word)), "1:x:" + rng.choice(["r", "hex", "h", "P"]))
        jobs.append({"rec": rec, "word": word, "src": "random"})
    traces = pool_map(drive, jobs, chunksize=8)
    ctx.notes["replayed_histories"] = len(traces)
    ctx.validate("trace/Trace_CrystalObject.tla", traces, batch=4000, timeout=2400)
    ctx.rule = ("histories over %d read-only queries (fixed arguments), choose_trigonal_lattice('H'/'R') and deepcopy and refused requests (misspelt choices, groups without the two settings) on seven structures "
                "(148 H molecular built in memory, 167 H loaded from CIF, 146 R loaded from SHELX, 148 H with a partially occupied site just off the 3-fold axis, 148 H with a diatomic across an inversion centre listed before a general molecule, P1 with whole molecules partly outside the cell, P3_1 (trigonal, no second setting)): every history of length <= 2 over the full "
                "alphabet and <= 3 over the %d-query core enumerated by TLC from MC_CrystalObject (thorough: <= 3 full, <= 4 core), plus seeded "
                "random histories of length 5-12; non-trivial = the history contains a setting switch" % (len(QUERIES), len(CORE)))
    ctx.exhaustive = True
    ctx.explanation = ("exhaustive over histories up to the stated lengths (words printed by TLC); answers are compared with a freshly constructed "
                       "crystal holding exact copies of the object's cell, space group and asymmetric unit")
    ctx.assumptions = ["answers are compared as digests of canonical projections (grid coordinates, sorted sets; exported texts are compared by "
                       "the structure they load back to)", "the structural state is projected to the 3N grid and an integer Gram matrix"]


def replay(ctx, rec):
    ctx.validate("trace/Trace_CrystalObject.tla", [drive(rec["record"]["meta"]["recipe"])])


if __name__ == "__main__":
    raise SystemExit(main("C14", run, replay))
